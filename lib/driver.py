"""Orchestrates one property check: engine K (Kani harnesses) and engine M (MIR -> BMC queries),
known-findings matching, replay, evidence."""
import os, sys, json, time, re, traceback

import kani_runner as K
import props

VERIF = K.VERIF
import vpaths
EVID = vpaths.EVIDENCE
REPLAYS = vpaths.REPLAYS
KNOWN = os.path.join(VERIF, "known_findings.json")



def _soft(why):
    """a harness / query that ran out of its time or memory budget: not explored (reported, never counted as held)"""
    return why.startswith("kissat timeout") or why.startswith("timeout after") or why.startswith("resource budget")

def load_known():
    try:
        return json.load(open(KNOWN))
    except FileNotFoundError:
        return {"findings": [], "fixed": []}


def finding_for(known, prop, engine, role, description):
    """A failed check is covered by a known finding iff property, engine, role (harness / query name) and the
    description pattern all match. Findings are keyed by role, never by the concrete values of one trace."""
    for f in known.get("findings", []):
        if f.get("property") != prop or f.get("engine", "K") != engine:
            continue
        if not re.fullmatch(f["role"], role):
            continue
        if re.search(f["match"], description):
            return f
    return None


def seed():
    try:
        return int(os.environ.get("VERIF_SEED", "0"))
    except ValueError:
        return 0


def main(prop, tier, only=None, engine=None):
    t0 = time.time()
    spec = props.PROPS.get(prop)
    if spec is None:
        print("unknown or not-applicable property %s" % prop)
        return 2
    known = load_known()
    os.makedirs(EVID, exist_ok=True)
    os.makedirs(REPLAYS, exist_ok=True)
    violations = []       # (role, description, replay_path)
    inconclusive = []     # (role, why)
    known_hits = []       # finding dicts that matched
    samples = []
    k_results = []
    m_results = []
    partial = bool(only or engine)

    cnt = {"checks": 0, "covers": 0, "solver": 0.0}
    m_stats_box = {}

    def run_k():
        # ---------------- engine K ----------------
        harnesses = [h for h in spec.get("k", []) if tier == "thorough" or h.get("tier", "quick") == "quick"]
        if only:
            pats = only.split(",")
            harnesses = [h for h in harnesses if any(p in h["name"] for p in pats)]
        if engine == "M":
            harnesses = []
        if harnesses:
            budget = spec.get("k_budget", {}).get(tier, {})
            jobs = budget.get("jobs", 6)
            timeout_s = budget.get("timeout_s", 1500 if tier == "quick" else 2400)
            mem_gb = budget.get("mem_gb", 14)
            # harnesses are run in groups so that heavy ones do not starve memory
            groups = {}
            for h in harnesses:
                groups.setdefault(h.get("group", "g0"), []).append(h)
            for gname in sorted(groups):
                g = groups[gname]
                gj = min(jobs, g[0].get("jobs", jobs))
                res, wall, log, out = K.run_harnesses(prop, [h["name"] for h in g], gj,
                                                      g[0].get("timeout_s", timeout_s), g[0].get("mem_gb", mem_gb),
                                                      tag="k-%s-%s" % (tier, gname), ignore={h["name"]: h.get("ignore_failed") for h in g})
                for h, r in zip(g, res):
                    r["spec"] = h
                    k_results.append(r)
                    expect = h.get("expect", "pass")   # "pass" | "finding" (a listed known finding must still show)
                    if r["verdict"] == "inconclusive":
                        inconclusive.append((h["name"], r["why"]))
                        continue
                    cnt["checks"] += r["checks"] or 0
                    cnt["covers"] += r["covers_sat"]
                    cnt["solver"] += r["time_s"] or 0.0
                    if r["verdict"] == "pass":
                        if expect == "finding":
                            print("NOTE: known finding no longer reproduces (stale entry?) role=%s" % h["name"])
                        continue
                    # ---- a failed check: details, known-finding matching, native replay
                    failed, test_src, dlog, dout = K.detail_run(prop, h["name"], g[0].get("timeout_s", timeout_s),
                                                                g[0].get("mem_gb", mem_gb))
                    if not failed:
                        inconclusive.append((h["name"], "failure could not be re-established in the detail run (see %s)" % dlog))
                        continue
                    real = [f for f in failed if "unwinding assertion" not in f["description"]
                            and not any(re.search(p_, f["description"]) for p_ in (h.get("ignore_failed") or []))]
                    unmatched = []
                    for f in real:
                        kf = finding_for(known, prop, "K", h["name"], f["description"])
                        if kf:
                            if kf not in known_hits:
                                known_hits.append(kf)
                        else:
                            unmatched.append(f)
                    if not unmatched:
                        continue
                    replay_path = os.path.join(REPLAYS, "%s-%s.rs" % (prop, h["name"].replace("::", "_")))
                    with open(replay_path, "w") as fh:
                        fh.write("// counterexample for %s found by Kani harness %s\n// failed checks:\n" % (prop, h["name"]))
                        for f in unmatched:
                            fh.write("//   %s @ %s\n" % (f["description"], f["location"]))
                        fh.write("// replay: append this test to /verif/kani/src/%s.rs and run `cargo kani playback -Z concrete-playback`\n" % h["name"].split("::")[0])
                        fh.write(test_src or "// (no concrete playback test was generated)\n")
                    reproduced, plog, msg = K.native_playback(prop, h["name"], test_src)
                    pure_ub = all(("dereference failure" in f["description"] or "pointer" in f["description"]) and
                                  "assertion failed" not in f["description"] for f in unmatched)
                    if reproduced:
                        cnt["replayed"] = cnt.get("replayed", 0) + 1
                        for f in unmatched:
                            violations.append((h["name"], f["description"], replay_path))
                    elif pure_ub:
                        # memory-safety counterexamples (use after free etc.) have no guaranteed native symptom:
                        # CBMC's trace is the evidence; reported as violation with the trace file
                        for f in unmatched:
                            violations.append((h["name"], f["description"] + " [memory-safety check; native replay shows no symptom: %s]" % msg, replay_path))
                    else:
                        inconclusive.append((h["name"], "counterexample did not reproduce natively (%s): %s" % (msg, "; ".join(f["description"] for f in unmatched))))
            for r in k_results:
                h = r["spec"]
                samples.append({"engine": "K", "harness": h["name"], "instantiation": h.get("inst", ""),
                                "bounds": h.get("bounds", ""), "oracle": h.get("oracle", ""),
                                "verdict": r["verdict"], "checks": r["checks"], "cover_witnesses_satisfied": r["covers_sat"],
                                "cover_witnesses": r["covers"], "cbmc_time_s": r["time_s"], "stubs": h.get("stubs", []),
                                "ignored_tool_artefacts": h.get("ignore_failed", []), "why": r["why"]})


    def run_m():
        # ---------------- engine M ----------------
        mq = [q for q in spec.get("m", []) if tier == "thorough" or q.get("tier", "quick") == "quick"]
        if only:
            pats = only.split(",")
            mq = [q for q in mq if any(p in q["name"] for p in pats)]
        if engine == "K":
            mq = []
        if mq:
            try:
                import mir_engine
                m_out = mir_engine.run_queries(prop, mq, tier, seed())
            except Exception as e:  # fail closed
                traceback.print_exc()
                m_out = {"results": [], "error": "%s: %s" % (type(e).__name__, e)}
            if m_out.get("error"):
                inconclusive.append(("engine-M", m_out["error"]))
            m_stats_box["s"] = m_out.get("stats", {})
            for r in m_out.get("results", []):
                m_results.append(r)
                cnt["solver"] += r.get("solver_s", 0.0)
                if r["verdict"] == "inconclusive":
                    inconclusive.append((r["name"], r.get("why", "")))
                elif r["verdict"] == "violation":
                    cnt["checks"] += 1                                                       # a decided query (satisfiable: counterexample found)
                    if r.get("replayed"): cnt["replayed"] = cnt.get("replayed", 0) + 1      # a solver-found schedule that the real code reproduced natively
                    kf = finding_for(known, prop, "M", r["name"], r.get("symptom", ""))
                    if kf:
                        if kf not in known_hits:
                            known_hits.append(kf)
                    else:
                        violations.append((r["name"], r.get("symptom", ""), r.get("replay", "")))
                else:
                    cnt["checks"] += r.get("queries", 1)
                    cnt["covers"] += r.get("witnesses", 0)
                samples.append({k: v for k, v in r.items() if k in ("name", "verdict", "threads", "bounds", "oracle", "functions",
                                                                    "steps", "cnf_vars", "cnf_clauses", "solver_s", "witness_trace",
                                                                    "queries", "witnesses", "why", "symptom", "replayed", "crosscheck_z3")})


    # the two engines run side by side (K: a few CBMC processes; M: encoder workers + kissat portfolio)
    import threading
    tm = threading.Thread(target=run_m); tm.start()
    run_k()
    tm.join()
    checks_discharged, covers_sat, solver_time, m_stats = cnt["checks"], cnt["covers"], cnt["solver"], m_stats_box.get("s", {})

    # ---------------- verdict ----------------
    for kf in known_hits:
        print("KNOWN-FINDING: property=%s %s" % (prop, kf["what"]))
    rc = 0
    if violations:
        rc = 1
        seen = set()
        for role, desc, path in violations:
            if (role, path) in seen:
                continue
            seen.add((role, path))
            print("VIOLATION property=%s replay=%s" % (prop, path))
            print("  role=%s: %s" % (role, desc))
    else:
        # a query / harness that merely ran out of its time budget was NOT EXPLORED: it is reported (here and in the evidence) and
        # does not turn the verdict of what WAS explored into a failure -- unless nothing at all was decided. Everything else that
        # is inconclusive (out of memory, vacuous harness, encoding error, a counterexample that does not replay) is exit 2.
        hard = [(r_, w_) for r_, w_ in inconclusive if not _soft(w_)]
        decided = cnt["checks"] > 0
        if hard or (inconclusive and not decided):
            rc = 2
    for role, why in inconclusive:
        tag = "NOT-EXPLORED (time budget)" if not why.startswith("resource budget") and _soft(why) else "NOT-EXPLORED (memory budget)" if _soft(why) else "INCONCLUSIVE"
        print("%s %s: %s" % (tag, role, why))

    n_k = len(k_results); n_m = len(m_results)
    functions = sorted(set(spec.get("functions", [])) | set(f for r in m_results for f in r.get("functions", [])))
    ev = {
        "property_id": prop,
        "tier": tier,
        "seed": seed(),
        "level": "model_checking",
        "coverage": {
            "evaluations": max(1, checks_discharged) if (n_k + n_m) else 0,
            "distinct_nontrivial": covers_sat + cnt.get("replayed", 0),
            "traces_validated_against_impl": cnt.get("replayed", 0),
            "rule": ("solver-decided queries over the real code. evaluations = CBMC checks (engine K: every assertion, "
                     "overflow, bounds, pointer and unwinding check of every harness) plus SAT queries (engine M) that were "
                     "decided 'holds for all inputs/schedules within the bound'. A case is non-trivial and distinct when it is "
                     "a named reachability witness (kani::cover! in K; witness query in M) that the solver proved REACHABLE in "
                     "this run: each names a different interesting region (e.g. 'counter crossed 2^32 and a send was rejected'); "
                     "distinct_nontrivial counts (harness, witness) pairs reported SATISFIED plus the counterexample schedules (of listed known findings, or of violations) "
                     "that the real code reproduced natively under the controlled scheduler (= traces_validated_against_impl)."),
            "samples": samples,
            "harnesses_run": n_k,
            "mir_queries_run": n_m,
            "functions_encoded": functions,
            "bounds": spec.get("bounds", ""),
            "outside_the_claim": spec.get("outside", ""),
            "solver_time_s": round(solver_time, 2),
            "known_findings_matched": [kf["what"] for kf in known_hits],
            "inconclusive": [{"role": r, "why": w} for r, w in inconclusive],
            "not_explored_time_budget": [r for r, w in inconclusive if _soft(w)],
            "engine_m_stats": m_stats,
            "partial_run": partial,
            "exhaustive": False,
        },
        "assumptions": spec.get("assumptions", []) + props.COMMON_ASSUMPTIONS,
        "wall_s": round(time.time() - t0, 2),
        "violations": len(violations),
    }
    with open(os.path.join(EVID, "%s.json" % prop), "w") as f:
        json.dump(ev, f, indent=1)
    print("%s tier=%s: K harnesses=%d, M queries=%d, checks discharged=%d, witnesses=%d, wall=%.0fs -> exit %d" %
          (prop, tier, n_k, n_m, checks_discharged, covers_sat, time.time() - t0, rc))
    return rc
