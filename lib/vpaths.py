"""Where things are. The registered checks always work on /repo; for development (running the checks against a scratch worktree that
carries a seeded defect while other checks run on /repo) VERIF_REPO=<dir> redirects everything -- sources, build output, evidence and
replay files -- to an isolated area under /verif/.build/alt-<name>, so that nothing under /verif/evidence or /verif/replays is touched."""
import os, shutil, re

VERIF = os.path.dirname(os.path.dirname(os.path.abspath(__file__)))
REPO = os.path.abspath(os.environ.get("VERIF_REPO", "/repo"))
ALT = REPO != "/repo"
BUILD = os.path.join(VERIF, ".build") if not ALT else os.path.join(VERIF, ".build", "alt-" + os.path.basename(REPO))
EVIDENCE = os.path.join(VERIF, "evidence") if not ALT else os.path.join(BUILD, "evidence")
REPLAYS = os.path.join(VERIF, "replays") if not ALT else os.path.join(BUILD, "replays")


def crate(name):
    """directory of a helper crate of ours (kani / replay) whose path dependency points at REPO"""
    src = os.path.join(VERIF, name)
    if not ALT: return src
    dst = os.path.join(BUILD, "crate-" + name)
    os.makedirs(dst, exist_ok=True)
    for dp, dn, fs in os.walk(src):
        dn[:] = [d for d in dn if d != "target"]
        rel = os.path.relpath(dp, src)
        os.makedirs(os.path.join(dst, rel), exist_ok=True)
        for f in fs:
            if f == "Cargo.lock": continue
            txt = open(os.path.join(dp, f), "rb").read()
            if f == "Cargo.toml": txt = txt.replace(b'path = "/repo"', ('path = "%s"' % REPO).encode())
            out = os.path.join(dst, rel, f)
            if not os.path.exists(out) or open(out, "rb").read() != txt: open(out, "wb").write(txt)
    return dst
