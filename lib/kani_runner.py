"""Engine K: runs Kani proof harnesses (crate /verif/kani, path dependency on /repo with feature `verif`)
and turns CBMC's verdicts into per-harness results.

Verdicts per harness:
  pass          VERIFICATION:- SUCCESSFUL, 0 failed checks, every cover witness SATISFIED, no `Status: ERROR`
  fail          >= 1 failed check that is not an unwinding assertion
  inconclusive  timeout, out-of-memory (ERROR / UNDETERMINED checks), unwinding-assertion failure,
                unsatisfied cover witness (vacuity), tool crash
"""
import os, re, subprocess, time, shutil, resource, json, signal

import vpaths
VERIF = vpaths.VERIF
KANI_CRATE = vpaths.crate("kani")
BUILD = vpaths.BUILD
REPO = vpaths.REPO


def _env():
    e = dict(os.environ)
    e["CARGO_NET_OFFLINE"] = "true"
    e.pop("RUSTFLAGS", None)
    return e


def sync_lockfile():
    src = os.path.join(REPO, "Cargo.lock")
    dst = os.path.join(KANI_CRATE, "Cargo.lock")
    try:
        if not os.path.exists(dst) or open(src, "rb").read() != open(dst, "rb").read():
            shutil.copyfile(src, dst)
    except FileNotFoundError:
        pass


def _limit(mem_gb):
    def f():
        os.setsid()
        if mem_gb:
            lim = int(mem_gb * (1 << 30))
            resource.setrlimit(resource.RLIMIT_AS, (lim, lim))
    return f


def run_cmd(cmd, cwd, timeout_s, mem_gb=None, log_path=None):
    """Runs cmd in its own process group; kills the whole group on timeout. Returns (rc, output, timed_out)."""
    t0 = time.time()
    p = subprocess.Popen(cmd, cwd=cwd, env=_env(), stdout=subprocess.PIPE, stderr=subprocess.STDOUT,
                         preexec_fn=_limit(mem_gb), text=True, errors="replace")
    timed_out = False
    try:
        out, _ = p.communicate(timeout=timeout_s)
    except subprocess.TimeoutExpired:
        timed_out = True
        try:
            os.killpg(p.pid, signal.SIGKILL)
        except ProcessLookupError:
            pass
        out, _ = p.communicate()
    if log_path:
        os.makedirs(os.path.dirname(log_path), exist_ok=True)
        with open(log_path, "w") as f:
            f.write("$ " + " ".join(cmd) + "\n" + out)
    return p.returncode, out, timed_out, time.time() - t0


RE_CHECKING = re.compile(r"^(?:Thread (\d+): )?Checking harness (\S+?)\.\.\.")
RE_THREAD = re.compile(r"^Thread (\d+):\s*$")
RE_FAILED = re.compile(r"\*\* (\d+) of (\d+) failed(?: \((.*?)\))?")
RE_COVER = re.compile(r"\*\* (\d+) of (\d+) cover properties satisfied(?: \((.*?)\))?")
RE_TIME = re.compile(r"Verification Time: ([0-9.]+)s")


def parse_terse(out):
    """Parses `cargo kani -j N --output-format terse` output into {harness: result-dict}."""
    results = {}
    thread_harness = {}
    cur = None
    last_checked = None
    for line in out.splitlines():
        m = RE_CHECKING.match(line)
        if m:
            th, h = m.group(1), m.group(2)
            results.setdefault(h, {"harness": h, "status": None, "failed": None, "checks": None, "covers_sat": 0,
                                   "covers": 0, "time_s": None, "failed_descriptions": [], "notes": []})
            if th is not None:
                thread_harness[th] = h
            else:
                cur = h
            last_checked = h
            continue
        m = RE_THREAD.match(line)
        if m:
            cur = thread_harness.get(m.group(1))
            continue
        if cur is None:
            continue
        r = results[cur]
        m = RE_FAILED.search(line)
        if m:
            r["failed"] = int(m.group(1)); r["checks"] = int(m.group(2))
            extra = m.group(3) or ""
            if "undetermined" in extra:
                r["notes"].append("undetermined checks: " + extra)
            continue
        m = RE_COVER.search(line)
        if m:
            r["covers_sat"] = int(m.group(1)); r["covers"] = int(m.group(2))
            continue
        if line.startswith("Failed Checks:"):
            r["failed_descriptions"].append(line[len("Failed Checks:"):].strip())
            continue
        if line.startswith("VERIFICATION:-"):
            r["status"] = line.split(":-")[1].strip()
            continue
        m = RE_TIME.search(line)
        if m:
            r["time_s"] = float(m.group(1))
            continue
        if "Status: ERROR" in line or "CBMC failed" in line or "out of memory" in line.lower() or "std::bad_alloc" in line:
            r["notes"].append(line.strip())
    return results


def classify(r, ignore=None):
    """-> 'pass' | 'fail' | 'inconclusive' (+ reason). `ignore`: regexes of failed-check descriptions that are known artefacts of the
    tool's memory model for this harness (documented per harness in props.py and DESIGN.md); they are dropped before the verdict."""
    if r["status"] is None:
        return "inconclusive", "no verdict (crash, timeout or out of memory)"
    if r["notes"]:
        return "inconclusive", "; ".join(r["notes"][:3])
    descs = r["failed_descriptions"]
    if ignore:
        kept = [d for d in descs if not any(re.search(p, d) for p in ignore)]
        r["ignored_artefacts"] = len(descs) - len(kept)
        descs = kept
        if not descs and r["status"].startswith("FAILED") and r["ignored_artefacts"] > 0 and r["failed"] is not None and r["failed"] == r["ignored_artefacts"]:
            if r["covers"] and r["covers_sat"] < r["covers"]:
                return "inconclusive", "vacuity: only %d of %d cover witnesses satisfied" % (r["covers_sat"], r["covers"])
            return "pass", "ignored %d failed check(s) that are artefacts of the tool's allocator model" % r["ignored_artefacts"]
    real_failures = [d for d in descs if "unwinding assertion" not in d]
    if r["status"].startswith("SUCCESSFUL"):
        if r["covers"] and r["covers_sat"] < r["covers"]:
            return "inconclusive", "vacuity: only %d of %d cover witnesses satisfied" % (r["covers_sat"], r["covers"])
        return "pass", ""
    if real_failures:
        return "fail", "; ".join(real_failures[:5])
    if descs:
        return "inconclusive", "unwinding bound too small: " + "; ".join(descs[:3])
    if r["failed"] == 0:
        # "0 of N failed ... VERIFICATION:- FAILED": the back end ended without a verdict for some checks (UNDETERMINED) -- on this
        # machine that is the solver hitting the address-space cap of the harness. Not a pass, not a failure: not explored.
        return "inconclusive", "resource budget: the solver ended without a verdict (0 checks failed, status FAILED: memory cap of the harness)"
    return "inconclusive", "FAILED without a failed check (ERROR/UNDETERMINED status)"


def run_harnesses(prop, harnesses, jobs, timeout_s, mem_gb, stubbing=True, tag="k", ignore=None):
    """Runs the given harnesses (full names `module::fn`) in ONE cargo-kani invocation with its own target dir."""
    sync_lockfile()
    target = os.path.join(BUILD, "kani-target")      # one target dir for all properties: the harness crate + /repo are compiled once (cargo locks it)
    cmd = ["cargo", "kani", "--target-dir", target, "--exact"]
    if stubbing:
        cmd += ["-Z", "stubbing"]
    for h in harnesses:
        cmd += ["--harness", h]
    cmd += ["-j", str(max(1, min(jobs, len(harnesses)))), "--output-format", "terse"]
    log = os.path.join(BUILD, "logs", "%s-%s.log" % (prop, tag))
    rc, out, timed_out, wall = run_cmd(cmd, KANI_CRATE, timeout_s, mem_gb, log)
    res = parse_terse(out)
    final = []
    for h in harnesses:
        r = res.get(h) or {"harness": h, "status": None, "failed": None, "checks": None, "covers_sat": 0, "covers": 0,
                            "time_s": None, "failed_descriptions": [], "notes": []}
        verdict, why = classify(r, (ignore or {}).get(h))
        if timed_out and r["status"] is None:
            why = "timeout after %ds" % timeout_s
        if r["status"] is None and "error: could not compile" in out:
            why = "harness crate does not compile against /repo's current tree"
        r["verdict"] = verdict; r["why"] = why
        final.append(r)
    return final, wall, log, out


def detail_run(prop, harness, timeout_s, mem_gb, stubbing=True):
    """Re-runs ONE failing harness in regular format with concrete playback to collect the failed checks
    (description + location) and the generated replay test."""
    sync_lockfile()
    target = os.path.join(BUILD, "kani-target")      # one target dir for all properties: the harness crate + /repo are compiled once (cargo locks it)
    cmd = ["cargo", "kani", "--target-dir", target, "--exact", "--harness", harness,
           "-Z", "concrete-playback", "--concrete-playback=print"]
    if stubbing:
        cmd += ["-Z", "stubbing"]
    log = os.path.join(BUILD, "logs", "%s-detail-%s.log" % (prop, harness.replace("::", "_")))
    rc, out, timed_out, wall = run_cmd(cmd, KANI_CRATE, timeout_s, mem_gb, log)
    failed = []
    blocks = re.split(r"\n(?=Check \d+: )", out)
    for b in blocks:
        if "- Status: FAILURE" in b:
            d = re.search(r'- Description: "(.*)"', b)
            l = re.search(r"- Location: (.*)", b)
            failed.append({"description": d.group(1) if d else "?", "location": (l.group(1).strip() if l else "?")})
    test_src = None
    m = re.search(r"```\n?(.*?)```", out, re.S)
    if m and "kani_concrete_playback" in m.group(1):
        test_src = m.group(1)
    else:
        m = re.search(r"(#\[test\]\s*\n\s*fn kani_concrete_playback.*?\n\})", out, re.S)
        if m:
            test_src = m.group(1)
    return failed, test_src, log, out


def native_playback(prop, harness, test_src, timeout_s=600):
    """Copies the harness crate to a scratch dir, appends the generated concrete-playback test to the harness'
    module and runs it natively (dev profile) with `cargo kani playback`. Returns (reproduced: bool|None, log, panic_msg)."""
    if not test_src:
        return None, None, "no concrete playback test was generated"
    scratch = os.path.join(BUILD, "playback-%s" % prop)
    shutil.rmtree(scratch, ignore_errors=True)
    shutil.copytree(KANI_CRATE, scratch, ignore=shutil.ignore_patterns("target"))
    mod = harness.split("::")[0]
    path = os.path.join(scratch, "src", mod + ".rs")
    m = re.search(r"fn (kani_concrete_playback_\w+)", test_src)
    test_name = m.group(1) if m else "kani_concrete_playback"
    with open(path, "a") as f:
        f.write("\n#[cfg(kani)]\nmod replay_generated {\n    use super::*;\n" + test_src + "\n}\n")
    log = os.path.join(BUILD, "logs", "%s-playback-%s.log" % (prop, harness.replace("::", "_")))
    env_target = os.path.join(BUILD, "kani-playback-target")
    cmd = ["cargo", "kani", "playback", "-Z", "concrete-playback", "--", test_name, "--nocapture"]
    e = _env(); e["CARGO_TARGET_DIR"] = env_target
    t0 = time.time()
    p = subprocess.Popen(cmd, cwd=scratch, env=e, stdout=subprocess.PIPE, stderr=subprocess.STDOUT, text=True,
                         errors="replace", preexec_fn=os.setsid)
    try:
        out, _ = p.communicate(timeout=timeout_s)
    except subprocess.TimeoutExpired:
        os.killpg(p.pid, signal.SIGKILL)
        out, _ = p.communicate()
        out += "\nTIMEOUT (the native replay hangs -- e.g. a spin loop that never exits)\n"
    with open(log, "w") as f:
        f.write("$ " + " ".join(cmd) + "\n" + out)
    shutil.rmtree(scratch, ignore_errors=True)
    panicked = re.search(r"panicked at (.*?):\n(.*)", out)
    if "test result: FAILED" in out or "panicked at" in out:
        return True, log, (panicked.group(2).strip() if panicked else "test failed")
    if "TIMEOUT (the native replay hangs" in out:
        return True, log, "native replay does not terminate"
    if "test result: ok" in out:
        return False, log, "native replay passed"
    return None, log, "playback could not be run (see log)"
