"""Glue between the driver (system python) and engine M (runs under the tooling venv python3-vt, which has z3)."""
import json, subprocess, os

def run_queries(prop, queries, tier, seed):
    names = ",".join(q["name"] for q in queries)
    env = dict(os.environ); env["CARGO_NET_OFFLINE"] = "true"
    if tier == "thorough": env.setdefault("VERIF_M_CROSSCHECK", "1")
    p = subprocess.run(["python3-vt", os.path.join(os.path.dirname(os.path.dirname(os.path.abspath(__file__))), "mir", "run_queries.py"), prop, tier, str(seed), names], stdout=subprocess.PIPE, stderr=subprocess.PIPE, text=True, env=env)
    try:
        out = json.loads(p.stdout.strip().splitlines()[-1])
    except Exception:
        return {"results": [], "error": "engine M failed: " + (p.stderr or p.stdout)[-800:]}
    want = {q["name"] for q in queries}
    got = {r["name"] for r in out["results"]}
    if want - got:
        out["error"] = "queries without result: %s" % sorted(want - got)
    return out
