"""Per-property specification: which Kani harnesses (engine K) and which MIR-BMC queries (engine M)
decide it, at which tier, with which bounds. Harness source: /verif/kani/src/<module>.rs."""

COMMON_ASSUMPTIONS = [
    "engine K: Kani 0.68 / CBMC 6.11 + CaDiCaL are trusted; Kani executes atomics sequentially (no preemption): "
    "interleavings are covered only as 'well-nested depth 1' interference at the `verif::yield_point()` hooks, where stated",
    "engine K: /repo is compiled with the cargo feature `verif` (adds yield-point calls, sequence-origin hooks, re-exports; no behavioural change)",
    "bounded verdicts: loops unrolled to the stated bound with unwinding assertions ON; anything beyond the bounds is outside the claim",
    "memory model: sequential consistency; weakened atomic orderings are not detected",
]

def H(name, tier="quick", **kw):
    d = {"name": name, "tier": tier}
    d.update(kw)
    return d

PROPS = {}

def M(name, tier="quick", **kw):
    d = {"name": name, "tier": tier}; d.update(kw); return d

_M_NOTE = ("engine M: thread programs over the MIR of the listed functions (feature-off build), symbolic scheduler, all schedules with at most "
           "the stated number of visible steps, sequential consistency, compare_exchange_weak never fails spuriously (quick)")
_M_TECH = "solver-based checking of the real code: rustc MIR of /repo -> bit-vector BMC over schedules (z3 bit-blast, kissat) + Kani/CBMC harnesses; counterexamples replayed natively"



PROPS["C15"] = {
    "bounds": "engine K: two instances of the same container (origin 0 vs. origin = any u32), same solver-chosen script of L<=5 (quick) operations send(any u32)/recv/len, then a full drain; BUFFER_SIZE 2 (quick), 4 (thorough)",
    "outside": "BUFFER_SIZE > 4; scripts longer than L; usize counters of the mmap log; release-profile (overflow-checks=off) builds in the quick tier",
    "functions": ["AtomicMove::{publish_movable,consume_movable,available_elements_count,leak_slot_internal,publish_leaked_internal,consume_leaking_internal,release_leaked_internal}",
                  "FullSyncMove::{publish_movable,consume_movable,available_elements_count,leak_slot_internal,publish_leaked_internal,consume_leaking_internal,release_leaked_internal}"],
    "assumptions": ["script operations are limited to send / receive / length query on the container-level API (reservation scripts are in the C08 harnesses, which also use a free origin)"],
    "k": [
        H("c15::c15_atomic_move_n2_l5", inst="AtomicMove<u32,2>", bounds="L=5, origin any u32", oracle="answers identical to a fresh (origin 0) instance"),
        H("c15::c15_full_sync_move_n2_l5", inst="FullSyncMove<u32,2>", bounds="L=5, origin any u32", oracle="answers identical to a fresh (origin 0) instance"),
    ],
}

_C08_STUBS = ["std::hint::spin_loop -> no-op (the x86 `pause` intrinsic is unsupported by Kani and has no semantics)"]
_CH_STUBS = _C08_STUBS + ["StreamsManagerBase::wake_stream -> no-op (delivery-only oracle: waking cannot change what consume() returns)",
                          "<[u32]>::sort_unstable -> insertion sort (justified by c00::sort_stub_agrees_with_real_sort)"]
PROPS["C08"] = {
    "engine": "kani-real + mir-bmc", "technique": _M_TECH,
    "m": [M("c08_reserve_vs_consumer_n2_k0"), M("c08_reserve_vs_consumer_n2_k1", "thorough"), M("c08_two_reservers_vs_consumer_n2_k0", "thorough"), M("c08_reserve_vs_consumer_n4_k3", "thorough")],
    "k_budget": {"quick": {"jobs": 2, "timeout_s": 1200, "mem_gb": 14}, "thorough": {"jobs": 3, "timeout_s": 2400, "mem_gb": 30}},
    "bounds": "engine K: solver-chosen scripts of L operations out of {reserve+fill(any u32), send-reserved(oldest), send-reserved(newest, out of order), cancel(newest), plain send(any u32), receive}, origin any u32, then resolve all reservations (solver picks send/cancel), drain, refill BUFFER_SIZE, one extra send must be rejected; L=5,N=2 (quick) / L=6,N=4 (thorough)",
    "outside": "payloads with destructors (excluded by the statement); BUFFER_SIZE > 4; scripts longer than L; interleavings with a concurrently polling consumer are covered by engine M queries only within their thread/step bounds",
    "functions": ["AtomicMove::{leak_slot_internal,try_publish_leaked_internal_index,try_unleak_slot_index_internal,slot_index_from_slot_ref,publish_movable,consume_movable}",
                  "AtomicZeroCopy/FullSyncZeroCopy::{leak_slot,publish_leaked_id,release_leaked_id,publish_movable,consume_leaking}", "OgreArrayPoolAllocator::{alloc_ref,dealloc_id,ref_from_id}",
                  "uni::channels::movable::atomic::Atomic::{reserve_slot,try_send_reserved,try_cancel_slot_reserve,send,consume} (thorough)"],
    "assumptions": ["cancellations are issued in reverse reservation order and plain sends only while no reservation is outstanding on the movable atomic ring (both documented restrictions)",
                    "the reservation that is next in line must be accepted by try_send_reserved in a sequential run (otherwise it could never be sent)"],
    "k": [
        H("c08::c08_ring_atomic_n2_l5", inst="AtomicMove<u32,2> driven as uni::channels::movable::atomic does", bounds="L=5, N=2, origin any u32", oracle="FIFO model of sent slots; capacity restored", stubs=_C08_STUBS),
        H("c08::c08_zc_atomic_n2_l5", tier="thorough", group="g1", inst="AtomicZeroCopy<u32, OgreArrayPoolAllocator<u32,AtomicMove<u32,2>,2>, 2>", bounds="L=5, N=2, origin any u32", oracle="FIFO model of sent slots; capacity restored", stubs=_C08_STUBS),
        H("c08::c08_zc_full_sync_n2_l5", tier="thorough", group="g1", inst="FullSyncZeroCopy<u32, OgreArrayPoolAllocator<u32,FullSyncMove<u32,2>,2>, 2>", bounds="L=5, N=2, origin any u32", oracle="FIFO model of sent slots; capacity restored", stubs=_C08_STUBS),
        H("c08::c08_ring_atomic_n4_l6", tier="thorough", inst="AtomicMove<u32,4>", bounds="L=6, N=4, origin any u32", stubs=_C08_STUBS, group="g1"),
        H("c08::c08_uni_move_atomic_n2_l3", tier="thorough", inst="ChannelUniMoveAtomic<u32,2,1>", bounds="L=3", stubs=_CH_STUBS, group="g1"),
        H("c08::c08_uni_zero_copy_atomic_n2_l3", tier="thorough", inst="ChannelUniZeroCopyAtomic<u32,2,1>", bounds="L=3", stubs=_CH_STUBS, group="g1"),
        H("c08::c08_uni_zero_copy_full_sync_n2_l3", tier="thorough", inst="ChannelUniZeroCopyFullSync<u32,2,1>", bounds="L=3", stubs=_CH_STUBS, group="g1"),
    ],
}

PROPS["C01"] = {
    "engine": "mir-bmc + kani-real", "technique": _M_TECH,
    "bounds": "engine M: BUFFER_SIZE 2 (quick) / 4 (thorough); 3-4 threads of 1-2 operations each + a drain thread that runs after all others; pre-filled 0..N events; sequence origin any u32; payloads distinct symbolic u32; step bound = sum of the longest acyclic paths + slack (stated per query)",
    "outside": "more than 4 threads / 2 operations per thread; BUFFER_SIZE > 4; orderings weaker than SC; the crossbeam channel; channel-level wake-ups (see C04)",
    "assumptions": [_M_NOTE, "exactly-once oracle: every value received is an accepted (or pre-filled) one, none twice, none lost after the final drain; a panic or an out-of-bounds / dangling access anywhere also counts"],
    "m": [M("c01_atomic_1p2c_n2_k2"), M("c01_atomic_1p2c_n2_k0"), M("c01_fullsync_1p1c_full_n2"), M("c01_atomic_1p1c_full_n2"), M("c01_atomic_2p1c_n2_k1"), M("c01_fullsync_2p1c_n2_k1"), 
          M("c01_zc_atomic_1p1c_n2_k1", "thorough"), M("c01_zc_fullsync_1p1c_n2_k1", "thorough"), M("c01_atomic_2p1c_n2_k0", "thorough"), M("c01_atomic_2p2c_n2_k1", "thorough"), M("c01_atomic_2p2c_n4_k3", "thorough"), M("c01_atomic_3p1c_n2_k1", "thorough"),
          M("c01_fullsync_2p2c_n2_k1", "thorough"), M("c01_zc_atomic_2p1c_n2_k1", "thorough"), M("c01_zc_fullsync_2p1c_n2_k1", "thorough")],
    "k": [
        H("c01::c01_ring_atomic_n2_l5", inst="AtomicMove<u32,2>", bounds="L=5 ops {send, send_with, recv, len}, origin any u32, then drain + refill", oracle="array FIFO model; rejected payload/setter handed back unchanged / un-invoked", stubs=_C08_STUBS),
        H("c01::c01_ring_full_sync_n2_l5", inst="FullSyncMove<u32,2>", bounds="L=5, origin any u32", oracle="array FIFO model", stubs=_C08_STUBS),
        H("c01::c01_zc_full_sync_n2_l4", tier="thorough", inst="FullSyncZeroCopy<u32,..,2>", bounds="L=4", stubs=_C08_STUBS, group="g1"),
        H("c01::c01_zc_atomic_n2_l4", tier="thorough", inst="AtomicZeroCopy<u32,..,2>", bounds="L=4", stubs=_C08_STUBS, group="g1"),
        H("c01::c01_ring_atomic_n4_l6", tier="thorough", inst="AtomicMove<u32,4>", bounds="L=6", stubs=_C08_STUBS, group="g1"),
        H("c01::c01_ring_full_sync_n4_l6", tier="thorough", inst="FullSyncMove<u32,4>", bounds="L=6", stubs=_C08_STUBS, group="g1"),
        H("c01::c01_uni_move_atomic_n2_l3", tier="thorough", inst="ChannelUniMoveAtomic<u32,2,1>", bounds="L=3", stubs=_CH_STUBS, group="g2"),
        H("c01::c01_uni_move_full_sync_n2_l3", tier="thorough", inst="ChannelUniMoveFullSync<u32,2,1>", bounds="L=3", stubs=_CH_STUBS, group="g2"),
        H("c01::c01_uni_zero_copy_atomic_n2_l3", tier="thorough", inst="ChannelUniZeroCopyAtomic<u32,2,1>", bounds="L=3", stubs=_CH_STUBS, group="g2"),
        H("c01::c01_uni_zero_copy_full_sync_n2_l3", tier="thorough", inst="ChannelUniZeroCopyFullSync<u32,2,1>", bounds="L=3", stubs=_CH_STUBS, group="g2"),
        H("c01::c01_uni_move_crossbeam_n2_l3", tier="thorough", inst="ChannelUniMoveCrossbeam<u32,2,1>", bounds="L=3", stubs=_CH_STUBS, group="g2"),
    ],
    "k_budget": {"quick": {"jobs": 2, "timeout_s": 1200, "mem_gb": 14}, "thorough": {"jobs": 4, "timeout_s": 2400, "mem_gb": 30}},
}
PROPS["C02"] = {
    "engine": "mir-bmc", "technique": _M_TECH,
    "bounds": "engine M: linearizability by symbolic enumeration of all program-order-respecting total orders (<= 6 operations incl. the drain), real-time order from the first/last visible step of every call; BUFFER_SIZE 2 (quick) / 4 (thorough); origin any u32",
    "outside": "histories with more than 6 operations; BUFFER_SIZE > 4; orderings weaker than SC; crossbeam channel (sequential K scripts only)",
    "assumptions": [_M_NOTE, "capacity rule as in the statement: a rejected send is explained when (events in the queue) + (calls in progress during the send) >= BUFFER_SIZE at its linearization point; an empty answer needs an empty queue at its linearization point"],
    "m": [M("c02_atomic_lin_c_pc_n2_k1"), M("c02_fullsync_lin_1p2c_n2_k1"), M("c02_atomic_lin_1p2c_n2_k2"), M("c02_atomic_lin_2p1c_n2_k1"), M("c02_atomic_lin_pp_cc_n2_k1", "thorough"), M("c02_fullsync_lin_2p1c_n2_k1"), M("c02_zc_atomic_lin_p_cc_n2_k1", "thorough"),
          M("c02_atomic_lin_2p2c_n2_k1", "thorough"), M("c02_atomic_lin_2p2c_n2_k2", "thorough"), M("c02_atomic_lin_2p1c_n4_k3", "thorough"), M("c02_fullsync_lin_2p2c_n2_k1", "thorough"),
          M("c02_zc_atomic_lin_pp_cc_n2_k1", "thorough"), M("c02_zc_fullsync_lin_p_cc_n2_k1", "thorough")],
    "k": [],
}

PROPS["C13"] = {
    "engine": "mir-bmc + kani-real", "technique": _M_TECH,
    "bounds": "engine M: 2-3 threads x <=3 allocator calls, POOL_SIZE 2 (quick) / 4 (thorough), free-list order and origin symbolic, both free-list kinds, linearizability against a bag of slot ids; engine K: scripts of L=5 alloc / dealloc_id / dealloc_ref from any origin with an ownership ledger, exhaust + refill, id<->ref bijection for payloads of 1, 4, 24 bytes",
    "outside": "POOL_SIZE 8; more than 3 threads; orderings weaker than SC",
    "assumptions": [_M_NOTE],
    "m": [M("c13_atomic_n2_a_vs_afa"), M("c13_atomic_n2_exhaust"), M("c13_fullsync_n2_a_vs_afa"), M("c13_atomic_n2_refs", "thorough"),
          M("c13_atomic_n4_3thr", "thorough"), M("c13_fullsync_n2_exhaust", "thorough"), M("c13_atomic_n2_2x_afa", "thorough")],
    "k": [
        H("c13::c13_pool_atomic_n2_l5", inst="OgreArrayPoolAllocator<u32, AtomicMove<u32,2>, 2>", bounds="L=5, origin any u32", oracle="ownership ledger: never a slot that is still allocated; fails only when all are outstanding; id/ref conversions agree", stubs=_C08_STUBS),
        H("c13::c13_pool_full_sync_n2_l5", inst="OgreArrayPoolAllocator<u32, FullSyncMove<u32,2>, 2>", bounds="L=5, origin any u32", stubs=_C08_STUBS),
        H("c13::c13_bijection_u8_n4", inst="pool of u8 x4", bounds="all id pairs", oracle="id<->reference bijection onto the pool", stubs=_C08_STUBS),
        H("c13::c13_bijection_u32_n4", inst="pool of u32 x4", bounds="all id pairs", stubs=_C08_STUBS),
        H("c13::c13_bijection_p24_n4", inst="pool of 24-byte structs x4", bounds="all id pairs", stubs=_C08_STUBS),
        H("c13::c13_pool_atomic_n4_l6", tier="thorough", inst="pool of u32 x4 over AtomicMove", bounds="L=6", stubs=_C08_STUBS, group="g1"),
    ],
    "k_budget": {"quick": {"jobs": 3, "timeout_s": 1200, "mem_gb": 14}, "thorough": {"jobs": 3, "timeout_s": 2400, "mem_gb": 30}},
}
PROPS["C14"] = {
    "engine": "mir-bmc + kani-real", "technique": _M_TECH,
    "bounds": "engine M: 2 (quick) / 3 (thorough) threads each holding one handle to the same pooled value, <=2 operations each out of {clone+drop, bulk increment+raw copy+drop, dereference, count, drop}, then a thread that allocates POOL_SIZE+1 times; engine K: scripts of L<=4 clone / drop / increment+raw_copy / deref+count over new_with_clones::<2> and OgreUnique::new + into_ogre_arc with a destructor-counting payload",
    "outside": "more than 3 threads; Acquire/Release pairing of the final drop (SC only); handles that outlive their allocator",
    "assumptions": [_M_NOTE, "engine M models the control block as a heap object with a ghost 'alive' bit: any access after Box::from_raw + drop is an error"],
    "m": [M("c14_last_two_drops"), M("c14_clone_vs_final_drop"), M("c14_bulk_increment_vs_drop"), M("c14_three_threads", "thorough"), M("c14_fullsync_last_two_drops", "thorough"), M("c14_keep_one", "thorough")],
    "k": [
        H("c14::c14_new_with_clones_script_l4", inst="OgreArc<Payload, pool x2 over AtomicMove>", bounds="L=4, origin any u32", oracle="destructor runs exactly once, exactly at the last drop; count == live handles; deref == original value; slot returned exactly once", stubs=_C08_STUBS),
        H("c14::c14_unique_into_arc_script_l3", inst="OgreUnique -> OgreArc", bounds="L=3", stubs=_C08_STUBS),
    ],
    "k_budget": {"quick": {"jobs": 2, "timeout_s": 1200, "mem_gb": 14}},
}

PROPS["C16"] = {
    "engine": "mir-bmc + kani-real", "technique": _M_TECH,
    "bounds": "engine M: one consumer thread that returns + 2 (quick) / 3 (thorough) producers colliding at the full boundary (BUFFER_SIZE 2, pre-filled full); a producer that is still not finished although every other thread returned K steps earlier (K = its longest acyclic path + 2) is a violation; stuttering allowed, no partial-order reduction. engine K (harnesses c01::*): rejected send leaves pending count unchanged, payload handed back, after a drain exactly BUFFER_SIZE sends are accepted, any origin",
    "outside": "more than 3 producers; unbounded fill/drain histories beyond the script length (K covers L<=6 + drain + refill); Arc Multi channels and crossbeam setter sends (excluded by the statement)",
    "assumptions": [_M_NOTE, "'returns promptly' is decided as: the call finishes within a bounded number of its own steps once no other thread is running"],
    "m": [M("c16_atomic_two_rejected_vs_consumer_n2"), M("c16_zc_atomic_rejected_while_slot_held_n2"), M("c16_zc_fullsync_rejected_while_slot_held_n2"), M("c16_atomic_rejected_vs_two_recv_n2", "thorough"), M("c16_fullsync_two_rejected_vs_consumer_n2"), M("c16_zc_atomic_rejected_vs_consumer_n2", "thorough"),
          M("c16_atomic_three_senders_n2", "thorough"), M("c16_zc_fullsync_rejected_vs_consumer_n2", "thorough")],
    "k": [H("c01::c01_ring_atomic_n2_l5", inst="AtomicMove<u32,2>", bounds="L=5", oracle="C16 assertions of the FIFO script", stubs=_C08_STUBS),
          H("c01::c01_ring_full_sync_n2_l5", inst="FullSyncMove<u32,2>", bounds="L=5", stubs=_C08_STUBS)],
    "k_budget": {"quick": {"jobs": 2, "timeout_s": 1200, "mem_gb": 14}},
}
PROPS["C18"] = {
    "engine": "mir-bmc + kani-real", "technique": _M_TECH,
    "bounds": "engine M: atomic-flag stack, 2-3 threads x <=2 (quick) / 3 (thorough) push/pop, capacity 2 / 4, strict linearizability against a bounded LIFO; the two non-blocking queues through the MIR of the zero-copy rings they wrap (linearizable FIFO, see C02); engine K: sequential scripts L=5..6 on the real atomic-flag Stack and the two NonBlockingQueue types against array models",
    "outside": "the parking-lot stack (parking_lot::RawMutex is dependency code for engine M, and Kani 0.68 crashes with an internal compiler error in its intrinsics pass when a harness reaches it -- the harness was removed); METRICS/DEBUG=true instantiations; 'long free-running multi-core runs' (not solver-based)",
    "assumptions": [_M_NOTE],
    "m": [M("c18_stack_push_vs_pop_n2_k1"), M("c18_stack_3thr_n2_k1"), M("c18_stack_full_boundary_n2_k2"), M("c18_queue_atomic_lin_p_cc_n2_k1", "thorough"), M("c18_queue_fullsync_lin_p_cc_n2_k1"),
          M("c18_stack_3thr_n4_k2", "thorough"), M("c18_stack_2x3_n2_k1", "thorough"), M("c18_queue_atomic_lin_pp_c_c_n2_k1", "thorough"), M("c18_queue_atomic_lin_c_pc_n2_k1", "thorough")],
    "k": [H("c18::c18_atomic_stack_n2_l6", inst="non_blocking_atomic_stack::Stack<u32,2,false,false>", bounds="L=6", oracle="array LIFO model", stubs=_C08_STUBS),
          H("c18::c18_atomic_queue_n2_l5", inst="atomic::NonBlockingQueue<u32,2,0>", bounds="L=5", oracle="array FIFO model", stubs=_C08_STUBS),
          H("c18::c18_full_sync_queue_n2_l5", inst="full_sync::NonBlockingQueue<u32,2,0>", bounds="L=5", oracle="array FIFO model", stubs=_C08_STUBS)],
    "k_budget": {"quick": {"jobs": 4, "timeout_s": 1200, "mem_gb": 14}},
}
PROPS["C19"] = {
    "engine": "mir-bmc + kani-real", "technique": _M_TECH,
    "bounds": "engine M: 2 (quick) / 3 (thorough) recording threads x <=2 inc + one reader x 2 probe; count exact, every probed / final (count, average) pair equals the update function folded over some order of the measurements; f32 arithmetic ABSTRACTED by bit-vector mixing functions (the claim does not depend on numeric values). engine K: real f32 semantics, sequential, two finite measurements in [-1000, 1000]: average == mean within 1e-3 relative",
    "outside": "the numeric claim for more than 2 measurements; counts at the u32::MAX reset (excluded by the statement); lightweight_probe (documented as unsynchronised)",
    "assumptions": [_M_NOTE, "engine M replaces IEEE f32 +,*,/ by fixed bit-vector mixing functions in BOTH the code and the oracle"],
    "m": [M("c19_two_writers_one_reader"), M("c19_two_writers_two_each", "thorough"), M("c19_three_writers_one_reader", "thorough"), M("c19_two_writers_two_each_reader", "thorough")],
    "k": [H("c19::c19_mean_of_two", inst="AtomicIncrementalAverage64", bounds="2 measurements in [-1000,1000], real f32", oracle="|avg - mean| <= 1e-3 * max(1,|mean|); pairs (1,a) and (2,mean)")],
    "k_budget": {"quick": {"jobs": 1, "timeout_s": 1200, "mem_gb": 14}},
}
PROPS["C20"] = {
    "engine": "mir-bmc", "technique": _M_TECH,
    "bounds": "engine M: a suspended send_with_async is modelled by what the real code has done when it suspends: the slot reservation of the channel's container (leak_slot_internal / leak_slot) by a thread that then returns and never publishes within the run; 1-2 other threads perform send / receive; an operation that is still unfinished K steps after every other thread returned spins (K = its longest acyclic path + 2); containers of all four Uni channel kinds that implement send_with_async over rings (movable atomic / full-sync, zero-copy atomic / full-sync), BUFFER_SIZE 2, including the exactly-full state (suspended slot + BUFFER_SIZE-1 queued events: one more send must be rejected promptly)",
    "outside": "the coroutine state machine of send_with_async itself (not translated; its pre-await part is exactly the reservation call that is encoded); Multi channels (they allocate separately per send, like the zero-copy Uni channels); crossbeam; resumption of the suspended send (its completion path is the ordinary publish path decided under C01/C08)",
    "assumptions": [_M_NOTE],
    "m": [M("c20_zc_atomic_suspended_vs_send_recv", "thorough"), M("c20_zc_fullsync_suspended_vs_send_recv", "thorough"), M("c20_zc_atomic_suspended_full_vs_send"), M("c20_zc_fullsync_suspended_full_vs_send"), M("c20_atomic_suspended_vs_recv"), M("c20_atomic_suspended_vs_send"),
          M("c20_fullsync_suspended_vs_send"), M("c20_fullsync_suspended_vs_recv")],
    "k": [],
}
PROPS["C04"] = {
    "engine": "mir-bmc", "technique": _M_TECH,
    "bounds": "engine M: uni movable full-sync and atomic channels the Multi arc/atomic and arc/full-sync channels (send = Arc::new + fan-out + per-listener wake rule) and the mmap-log Multi channel (MmapLog::send over the log topic, 1-2 producers), MAX_STREAMS 1 (and 2 with one stream created, uni atomic channel), entry points send and reserve_slot + try_send_reserved, one stream whose task is driven by an executor model (poll_next; park when Pending; re-poll when its waker was invoked); 1 producer x 1-2 sends (quick), 2 producers / 3 sends with BUFFER_SIZE 4 (thorough); stream either never polled before or parked with its waker registered; violation = quiescent state with producers returned, task parked and un-woken, event pending; functions: <channel>::send, StreamsManagerBase::{wake_stream, register_stream_waker, keep_stream_running}, MutinyStream::poll_next, <channel>::consume, ring publish/consume",
    "outside": "send_with / send_with_async wake rules (same rule as send in the source, not encoded); the OgreArc and crossbeam Multi channels; two streams created at once; Tokio's own wake-to-poll latency (the model re-polls whenever woken); zero-copy and crossbeam channels",
    "assumptions": [_M_NOTE, "a Waker is an abstract task id; Waker::{clone, will_wake, wake_by_ref} are intrinsics; ogre_sync::lock's retry ladder is encoded as one retrying CAS after its MIR was checked to be exactly that"],
    "m": [M("c04_atomic_parked_k2_vs_send_n4"), M("c04_multi_arc_atomic_parked_k2_vs_send_n4"), M("c04_atomic_parked_vs_reserved_ms2"), M("c04_full_sync_first_park_vs_send"), M("c04_multi_arc_full_sync_parked_vs_send"), M("c04_mmap_log_parked_vs_send"), M("c04_mmap_log_parked_vs_two_producers"), M("c04_atomic_first_park_vs_send", "thorough"), M("c04_mmap_log_first_park_vs_send", "thorough"),
          M("c04_full_sync_parked_vs_send", "thorough"), M("c04_atomic_parked_vs_send_ms2", "thorough"), M("c04_full_sync_parked_k2_vs_send_n4", "thorough"), M("c04_multi_arc_atomic_parked_vs_send", "thorough"), M("c04_multi_arc_atomic_first_park_vs_send", "thorough"),
          M("c04_multi_arc_full_sync_parked_k2_vs_send_n4", "thorough"), M("c04_atomic_parked_vs_reserved_ms1", "thorough"), M("c04_atomic_parked_vs_two_sends", "thorough"), M("c04_full_sync_parked_vs_two_producers", "thorough"), M("c04_atomic_parked_vs_three_sends_n4", "thorough")],
    "k": [],
}
PROPS["C05"] = {
    "engine": "kani-real + mir-bmc", "technique": _M_TECH,
    "bounds": "engine K: movable rings carrying a destructor-counting payload: scripts of L=4 send / receive+drop / receive+hold, then the ring is dropped with whatever is buffered; every accepted payload destroyed exactly once, CBMC pointer checks (dead object / double free) on; engine M: the last handles to one pooled value dropped / cloned concurrently on 2-3 threads (control block freed once, slot returned once, never touched after the free), see also C14; and the zero-copy ring with a payload type that HAS a destructor (mem::needs_drop true; the destructor is modelled as a visible store of a DESTROYED marker into the slot), pool exhausted: a consumer releasing a payload vs. a producer waiting for a slot -- no event may ever read as destroyed",
    "outside": "whole-channel teardown of the Multi ogre_arc channels (Kani exhausts 45 GB on the channel object; their fields drop the allocator before the per-listener queues -- see DESIGN.md findings, decided by reading only); Arc-based Multi channels (std Arc); destructors that touch the channel",
    "assumptions": [_M_NOTE, "setters initialise the slot without reading or dropping its previous bytes; handles do not outlive their channel (both granted by the statement)"],
    "m": [M("c05_arc_last_two_drops"), M("c05_arc_clone_drop_vs_drop"), M("c05_zc_atomic_destructor_vs_reuse_n2"), M("c05_zc_fullsync_destructor_vs_reuse_n2", "thorough"), M("c05_arc_three_droppers", "thorough"), M("c05_arc_fullsync_last_two_drops", "thorough")],
    "k": [H("c05::c05_ring_atomic_teardown_n2_l4", inst="AtomicMove<Tracked,2>", bounds="L=4 then drop with leftovers", oracle="drop counter per payload == 1 iff accepted", stubs=_C08_STUBS),
          H("c05::c05_ring_full_sync_teardown_n2_l4", inst="FullSyncMove<Tracked,2>", bounds="L=4 then drop with leftovers", stubs=_C08_STUBS)],
    "k_budget": {"quick": {"jobs": 2, "timeout_s": 1200, "mem_gb": 14}},
}
PROPS["C07"] = {
    "engine": "mir-bmc", "technique": _M_TECH,
    "bounds": "engine M: uni movable atomic and full-sync channels the Multi arc/atomic channel and the mmap-log Multi channel, MAX_STREAMS 1-2 with 1-2 streams, each stream's task driven by an executor model (poll_next; park when Pending; re-poll when its waker was invoked; return when it answers end-of-stream); the request is <channel>::cancel_all_streams() or StreamsManagerBase::cancel_stream(id) (what gracefully_end_stream issues after its flush), racing every step of poll_next (before the first poll, between the consume attempt / keep-running check and the waker registration, while parked, while items are buffered) and optionally one concurrent send; BUFFER_SIZE 2, 0-1 buffered events, origin any u32",
    "outside": "the 1 ms re-wake loop of end_stream / end_all_streams (async fns over Tokio timers, see C06); stream-id recycling after the drop (sync_vacant_and_used_streams uses Vec/sort: outside the MIR subset; decided sequentially under C10); zero-copy, crossbeam and Multi channels (they share StreamsManagerBase and MutinyStream::poll_next verbatim and differ only in consume()); more than 2 streams",
    "assumptions": [_M_NOTE, "a Waker is an abstract task id; Waker::{clone, will_wake, wake_by_ref} are intrinsics; the executor re-polls a task whenever its waker was invoked and never otherwise",
                    "a targeted stream whose task returns has answered end-of-stream (the task model returns only on Poll::Ready(None))"],
    "functions": ["<uni channel>::{cancel_all_streams, send, consume, keep_stream_running, register_stream_waker}", "StreamsManagerBase::{cancel_all_streams, cancel_stream, wake_stream, register_stream_waker, keep_stream_running}", "MutinyStream::poll_next", "ring publish/consume"],
    "m": [M("c07_atomic_cancel_all_vs_first_poll"), M("c07_atomic_cancel_all_vs_parked_k0"), M("c07_atomic_cancel_all_vs_parked_k1"), M("c07_full_sync_cancel_all_vs_first_poll"), M("c07_atomic_cancel_one_of_two"), M("c07_multi_arc_atomic_cancel_all_vs_first_poll"), M("c07_mmap_log_cancel_all_vs_first_poll"), M("c07_multi_arc_atomic_cancel_all_vs_parked_k1"), M("c07_atomic_cancel_all_vs_send", "thorough"),
          M("c07_atomic_cancel_all_two_streams", "thorough"), M("c07_full_sync_cancel_all_vs_send_parked", "thorough"), M("c07_full_sync_cancel_one_of_two_parked", "thorough")],
    "k": [],
}
_C10_STUBS = _C08_STUBS + ["<[u32]>::sort_unstable -> insertion sort (the generic pattern-defeating quicksort makes CBMC's symbolic execution explode; the list has <= MAX_STREAMS <= 4 elements)"]
_C10_CH_STUBS = _C10_STUBS + ["StreamsManagerBase::wake_stream -> no-op (delivery-only oracle: listeners are drained through ChannelConsumer::consume(), waking cannot change what it returns)"]
_DEALLOC_ARTEFACT = [r"rust_dealloc must be called on an object whose allocated size matches its layout", r"free argument (must be NULL or valid pointer|must be dynamic object|has offset zero)", r"^double free$"]
PROPS["C10"] = {
    "engine": "kani-real",
    "bounds": "engine K: (a) StreamsManagerBase<MAX_STREAMS> (the bookkeeping all Uni and Multi channels share): fixed-shape histories of 4-6 create_stream_id / report_stream_dropped(solver-chosen live id) calls, MAX_STREAMS 2 and 4, the vacant-id ring's sequence counters starting at 0 and just below 2^32 (so that they wrap during the history); (b) the five non-log Multi channels, MAX_STREAMS 1, BUFFER_SIZE 2: listener A created, one event (any u32) sent, consumed or not (solver's choice), A dropped, listener B created (it recycles A's id): B's first consume must answer nothing",
    "outside": "symbolic sequence origins at this level (a free origin makes the Vec/concat/sort code of the live-list rebuild cost > 15 min and > 14 GB per harness; the rings themselves are decided for any origin under C01/C15); MAX_STREAMS 1 and > 4; longer histories; concurrent churn (C17); the cancel clause ('until it is told to end') is decided under C07",
    "assumptions": ["at most MAX_STREAMS streams live at a time (granted by the statement)", "listeners are drained through ChannelConsumer::consume(stream_id) -- the call MutinyStream::poll_next makes -- and dropped by dropping the real MutinyStream (its Drop impl is part of the code under test)",
                    "tool artefact, ignored in these harnesses only: CBMC reports the deallocation of the EMPTY Vec returned by `peek_remaining().concat()` as invalid (it models a non-zero capacity for it); natively the Vec has capacity 0 and is never deallocated (valgrind-clean), and a 3-second harness on FullSyncMove::peek_remaining().concat() alone reproduces the report (DESIGN.md, C10)"],
    "functions": ["StreamsManagerBase::{new, create_stream_id, report_stream_dropped, sync_vacant_and_used_streams, used_streams, running_streams_count, keep_stream_running}", "FullSyncMove::{publish_movable, consume_movable, peek_remaining}",
                  "multi::channels::{arc::atomic, arc::full_sync, arc::crossbeam, ogre_arc::atomic, ogre_arc::full_sync}::{new, create_stream_for_new_events, send, send_derived, consume, drop_resources, running_streams_count}", "MutinyStream::{new, drop}"],
    "k": [
        H("c10::c10_shape_ms2_ccdc_o0", inst="StreamsManagerBase<2>", bounds="create, create, drop(any live), create; origin 0", oracle="ids vacant & in range, count == live, live list sorted + sentinel, never exhausted", stubs=_C10_STUBS, ignore_failed=_DEALLOC_ARTEFACT),
        H("c10::c10_shape_ms2_cdcc_o0", inst="StreamsManagerBase<2>", bounds="create, drop, create, create; origin 0", stubs=_C10_STUBS, ignore_failed=_DEALLOC_ARTEFACT),
        H("c10::c10_shape_ms2_ccddcc_wrap", inst="StreamsManagerBase<2>", bounds="create, create, drop(any), drop, create, create; origin 2^32-3 (wraps)", stubs=_C10_STUBS, ignore_failed=_DEALLOC_ARTEFACT),
        H("c10::c10_shape_ms4_cccdc_o0", inst="StreamsManagerBase<4>", bounds="create x3, drop(any live), create; origin 0", stubs=_C10_STUBS, ignore_failed=_DEALLOC_ARTEFACT),
        H("c10::c10_recycle1_leftover_arc_atomic", inst="ChannelMultiArcAtomic<u32,2,1>", bounds="history A:create, send(any u32), drop WITHOUT consuming; B:create (recycles A's id), consume; origin 0", oracle="B yields nothing that was sent before its creation", stubs=_C10_CH_STUBS, ignore_failed=_DEALLOC_ARTEFACT),
        H("c10::c10_recycle1_arc_atomic", tier="thorough", inst="ChannelMultiArcAtomic<u32,2,1>", bounds="history A:create, send(any u32), (consume)?, drop; B:create (recycles A's id), consume; origin 0", oracle="B yields nothing that was sent before its creation", stubs=_C10_CH_STUBS, ignore_failed=_DEALLOC_ARTEFACT, group="g3"),
        H("c10::c10_recycle1_ogre_arc_atomic", tier="thorough", inst="ChannelMultiOgreArcAtomic<u32,2,1>", bounds="same history; origin 0", stubs=_C10_CH_STUBS, ignore_failed=_DEALLOC_ARTEFACT, group="g5", mem_gb=40, jobs=1),
        H("c10::c10_recycle1_arc_full_sync", tier="thorough", inst="ChannelMultiArcFullSync<u32,2,1>", stubs=_C10_CH_STUBS, ignore_failed=_DEALLOC_ARTEFACT, group="g3"),
        H("c10::c10_recycle1_arc_crossbeam", tier="thorough", inst="ChannelMultiArcCrossbeam<u32,2,1>", stubs=_C10_CH_STUBS, ignore_failed=_DEALLOC_ARTEFACT, group="g3"),
        H("c10::c10_recycle1_ogre_arc_full_sync", tier="thorough", inst="ChannelMultiOgreArcFullSync<u32,2,1>", stubs=_C10_CH_STUBS, ignore_failed=_DEALLOC_ARTEFACT, group="g3"),
        H("c10::c10_shape_ms4_ccdcdc_wrap", tier="thorough", inst="StreamsManagerBase<4>", bounds="6 calls; origin 2^32-2", stubs=_C10_STUBS, ignore_failed=_DEALLOC_ARTEFACT, group="g2"),
        H("c10::c10_books_ms2_l4", tier="thorough", inst="StreamsManagerBase<2>", bounds="L=4 solver-chosen operations, origin ANY u32 (expensive)", stubs=_C10_STUBS, ignore_failed=_DEALLOC_ARTEFACT, group="g4", timeout_s=2400, mem_gb=40, jobs=1),
    ],
    "k_budget": {"quick": {"jobs": 5, "timeout_s": 1500, "mem_gb": 16}, "thorough": {"jobs": 3, "timeout_s": 2400, "mem_gb": 30}},
}
PROPS["C03"] = {
    "engine": "mir-bmc + kani-real", "technique": _M_TECH,
    "bounds": "engine K (thorough): two listeners, one event: same allocation observed by both (Arc::ptr_eq / same OgreArc data address). engine M: Multi arc/atomic and arc/full-sync channels (send -> Arc::new + send_derived fan-out; consume(stream_id)), MAX_STREAMS 2 with 1-2 listeners whose set does not change (the live-stream list is a constant of the query), BUFFER_SIZE 4, 1-2 producers x 1-2 sends (all sequences shorter than the buffer), each listener consuming 0-1 events concurrently, the rest read from the final state of its queue; origin any u32; payloads distinct symbolic u32",
    "outside": "the same-allocation clause under concurrency (engine M carries std::sync::Arc as its content; the clause is decided sequentially by the thorough Kani harnesses); OgreArc, crossbeam and mmap-log Multi channels (see C14/C05 for the OgreArc handles, C09 for the log); send_with / send_with_async entry points (they wrap the same send_derived); MAX_STREAMS > 2; the 500 ms sleep-and-retry path of a full listener queue (encoded, but the bounds never fill a queue); waking (C04)",
    "assumptions": [_M_NOTE, "logging is off (no logger is installed by the library: the log-level test answers false); thread::sleep has no effect on shared state"],
    "functions": ["multi::channels::arc::{atomic,full_sync}::{send, send_derived, consume}", "StreamsManagerBase::{used_streams, wake_stream}", "AtomicMove / FullSyncMove::{publish_movable, consume_movable} and their internals"],
    "m": [M("c03_arc_atomic_2p_1l"), M("c03_arc_atomic_1p_2l_c"), M("c03_arc_full_sync_2p_1l"),
          M("c03_arc_atomic_1p2_2l", "thorough"), M("c03_arc_atomic_2p_1l_c", "thorough"), M("c03_arc_atomic_2p_2l", "thorough"), M("c03_arc_full_sync_1p2_2l", "thorough"), M("c03_arc_atomic_2p2_1l", "thorough")],
    "k": [
        H("c03::c03_same_allocation_arc_atomic", tier="thorough", inst="ChannelMultiArcAtomic<u32,2,2>", bounds="two listeners, one send (any u32), both take it; origin 0", oracle="both listeners yield the sent payload from the very same allocation (Arc::ptr_eq), nothing else", stubs=_C10_CH_STUBS, ignore_failed=_DEALLOC_ARTEFACT, group="g1", mem_gb=30, jobs=1),
        H("c03::c03_same_allocation_ogre_arc_atomic", tier="thorough", inst="ChannelMultiOgreArcAtomic<u32,2,2>", bounds="same script", oracle="same data address behind both OgreArc handles", stubs=_C10_CH_STUBS, ignore_failed=_DEALLOC_ARTEFACT, group="g2", mem_gb=50, jobs=1),
    ],
    "k_budget": {"thorough": {"jobs": 1, "timeout_s": 2400, "mem_gb": 30}},
}
PROPS["C09"] = {
    "engine": "mir-bmc", "technique": _M_TECH,
    "bounds": "engine M: the log topic MMapMeta<u32> with 4 slots (publish_movable / publish; subscribe_to_new_events_only, subscribe_to_separated_old_and_new_events, subscribe_to_joined_old_and_new_events; the Dynamic and Fixed subscribers' consume): 1-2 publishers x 1-2 events (2-3 events in total), one listener (two in thorough) that subscribes at any point of the publishers' progress, polls 0-1 times concurrently, then -- after the publishers returned -- drains; every interleaving of the visible steps, in particular the subscription between a publisher's position reservation (fetch_add on publisher_tail) and its publication (CAS on consumer_tail)",
    "outside": "the file and the mapping themselves (open/mmap are FFI: the mapped region is modelled as the memory it provides), growth beyond the mapped slots, crash consistency (not offered upstream), the old-only subscription (todo!() upstream); the channel wrapper MmapLog (stream bookkeeping is StreamsManagerBase, see C07/C10; its consume() closures ARE the ones used here); more than 2 listeners / 3 events",
    "assumptions": [_M_NOTE, "listeners drain only after the publishers have returned (a harness barrier), so 'yields the entire history' is decidable at the end of the run; before the barrier they poll at solver-chosen moments"],
    "functions": ["MMapMeta::{publish, publish_movable, subscribe_to_new_events_only, subscribe_to_separated_old_and_new_events, subscribe_to_joined_old_and_new_events, buffer_as_slice_mut}", "MMapMetaDynamicSubscriber::consume", "MMapMetaFixedSubscriber::consume", "closures of MmapLog::consume"],
    "m": [M("c09_split_vs_publisher"), M("c09_joined_vs_two_publishers"), M("c09_newonly_vs_publisher"), M("c09_split_vs_two_publishers"), M("c09_joined_and_split"), M("c09_split_vs_three_events"),
          M("c09_split1_vs_three_events", "thorough"), M("c09_three_publishers_joined", "thorough"), M("c09_two_splits", "thorough"), M("c09_split_and_newonly_vs_two_publishers", "thorough")],
    "k": [],
}
