"""Per-property specification: which Kani harnesses (engine K) and which MIR-BMC queries (engine M)
decide it, at which tier, with which bounds. Harness source: /verif/kani/src/<module>.rs."""

COMMON_ASSUMPTIONS = [
    "engine K: Kani 0.68 / CBMC 6.11 + CaDiCaL are trusted; Kani executes atomics sequentially (no preemption): "
    "interleavings are covered only as 'well-nested depth 1' interference at the `verif::yield_point()` hooks, where stated",
    "engine K: /repo is compiled with the cargo feature `verif` (adds yield-point calls, sequence-origin hooks, re-exports; no behavioural change)",
    "bounded verdicts: loops unrolled to the stated bound with unwinding assertions ON; anything beyond the bounds is outside the claim",
    "memory model: sequential consistency; weakened atomic orderings are not detected",
]

def H(name, tier="quick", **kw):
    d = {"name": name, "tier": tier}
    d.update(kw)
    return d

PROPS = {}

def M(name, tier="quick", **kw):
    d = {"name": name, "tier": tier}; d.update(kw); return d

_M_NOTE = ("engine M: thread programs over the MIR of the listed functions (feature-off build), symbolic scheduler, all schedules with at most "
           "the stated number of visible steps, sequential consistency, compare_exchange_weak never fails spuriously (quick)")
_M_TECH = "solver-based checking of the real code: rustc MIR of /repo -> bit-vector BMC over schedules (z3 bit-blast, kissat) + Kani/CBMC harnesses; counterexamples replayed natively"



PROPS["C15"] = {
    "bounds": "engine K: two instances of the same container (origin 0 vs. origin = any u32), same solver-chosen script of L<=5 (quick) operations send(any u32)/recv/len, then a full drain; BUFFER_SIZE 2 (quick), 4 (thorough)",
    "outside": "BUFFER_SIZE > 4; scripts longer than L; usize counters of the mmap log; release-profile (overflow-checks=off) builds in the quick tier",
    "functions": ["AtomicMove::{publish_movable,consume_movable,available_elements_count,leak_slot_internal,publish_leaked_internal,consume_leaking_internal,release_leaked_internal}",
                  "FullSyncMove::{publish_movable,consume_movable,available_elements_count,leak_slot_internal,publish_leaked_internal,consume_leaking_internal,release_leaked_internal}"],
    "assumptions": ["script operations are limited to send / receive / length query on the container-level API (reservation scripts are in the C08 harnesses, which also use a free origin)"],
    "k": [
        H("c15::c15_atomic_move_n2_l5", inst="AtomicMove<u32,2>", bounds="L=5, origin any u32", oracle="answers identical to a fresh (origin 0) instance"),
        H("c15::c15_full_sync_move_n2_l5", inst="FullSyncMove<u32,2>", bounds="L=5, origin any u32", oracle="answers identical to a fresh (origin 0) instance"),
    ],
}

_C08_STUBS = ["std::hint::spin_loop -> no-op (the x86 `pause` intrinsic is unsupported by Kani and has no semantics)"]
_CH_STUBS = _C08_STUBS + ["StreamsManagerBase::wake_stream -> no-op (delivery-only oracle: waking cannot change what consume() returns)",
                          "<[u32]>::sort_unstable -> insertion sort (justified by c00::sort_stub_agrees_with_real_sort)"]
PROPS["C08"] = {
    "engine": "kani-real + mir-bmc", "technique": _M_TECH,
    "m": [M("c08_reserve_vs_consumer_n2_k0"), M("c08_reserve_vs_consumer_n2_k1", "thorough"), M("c08_two_reservers_vs_consumer_n2_k0", "thorough"), M("c08_reserve_vs_consumer_n4_k3", "thorough")],
    "k_budget": {"quick": {"jobs": 2, "timeout_s": 1200, "mem_gb": 14}, "thorough": {"jobs": 3, "timeout_s": 10800, "mem_gb": 30}},
    "bounds": "engine K: solver-chosen scripts of L operations out of {reserve+fill(any u32), send-reserved(oldest), send-reserved(newest, out of order), cancel(newest), plain send(any u32), receive}, origin any u32, then resolve all reservations (solver picks send/cancel), drain, refill BUFFER_SIZE, one extra send must be rejected; L=5,N=2 (quick) / L=6,N=4 (thorough)",
    "outside": "payloads with destructors (excluded by the statement); BUFFER_SIZE > 4; scripts longer than L; interleavings with a concurrently polling consumer are covered by engine M queries only within their thread/step bounds",
    "functions": ["AtomicMove::{leak_slot_internal,try_publish_leaked_internal_index,try_unleak_slot_index_internal,slot_index_from_slot_ref,publish_movable,consume_movable}",
                  "AtomicZeroCopy/FullSyncZeroCopy::{leak_slot,publish_leaked_id,release_leaked_id,publish_movable,consume_leaking}", "OgreArrayPoolAllocator::{alloc_ref,dealloc_id,ref_from_id}",
                  "uni::channels::movable::atomic::Atomic::{reserve_slot,try_send_reserved,try_cancel_slot_reserve,send,consume} (thorough)"],
    "assumptions": ["cancellations are issued in reverse reservation order and plain sends only while no reservation is outstanding on the movable atomic ring (both documented restrictions)",
                    "the reservation that is next in line must be accepted by try_send_reserved in a sequential run (otherwise it could never be sent)"],
    "k": [
        H("c08::c08_ring_atomic_n2_l5", inst="AtomicMove<u32,2> driven as uni::channels::movable::atomic does", bounds="L=5, N=2, origin any u32", oracle="FIFO model of sent slots; capacity restored", stubs=_C08_STUBS),
        H("c08::c08_zc_atomic_n2_l5", tier="thorough", group="g1", inst="AtomicZeroCopy<u32, OgreArrayPoolAllocator<u32,AtomicMove<u32,2>,2>, 2>", bounds="L=5, N=2, origin any u32", oracle="FIFO model of sent slots; capacity restored", stubs=_C08_STUBS),
        H("c08::c08_zc_full_sync_n2_l5", tier="thorough", group="g1", inst="FullSyncZeroCopy<u32, OgreArrayPoolAllocator<u32,FullSyncMove<u32,2>,2>, 2>", bounds="L=5, N=2, origin any u32", oracle="FIFO model of sent slots; capacity restored", stubs=_C08_STUBS),
        H("c08::c08_ring_atomic_n4_l6", tier="thorough", inst="AtomicMove<u32,4>", bounds="L=6, N=4, origin any u32", stubs=_C08_STUBS, group="g1"),
        H("c08::c08_uni_move_atomic_n2_l3", tier="thorough", inst="ChannelUniMoveAtomic<u32,2,1>", bounds="L=3", stubs=_CH_STUBS, group="g1"),
        H("c08::c08_uni_zero_copy_atomic_n2_l3", tier="thorough", inst="ChannelUniZeroCopyAtomic<u32,2,1>", bounds="L=3", stubs=_CH_STUBS, group="g1"),
        H("c08::c08_uni_zero_copy_full_sync_n2_l3", tier="thorough", inst="ChannelUniZeroCopyFullSync<u32,2,1>", bounds="L=3", stubs=_CH_STUBS, group="g1"),
    ],
}

PROPS["C01"] = {
    "engine": "mir-bmc + kani-real", "technique": _M_TECH,
    "bounds": "engine M: BUFFER_SIZE 2 (quick) / 4 (thorough); 3-4 threads of 1-2 operations each + a drain thread that runs after all others; pre-filled 0..N events; sequence origin any u32; payloads distinct symbolic u32; step bound = sum of the longest acyclic paths + slack (stated per query)",
    "outside": "more than 4 threads / 2 operations per thread; BUFFER_SIZE > 4; orderings weaker than SC; the crossbeam channel; channel-level wake-ups (see C04)",
    "assumptions": [_M_NOTE, "exactly-once oracle: every value received is an accepted (or pre-filled) one, none twice, none lost after the final drain; a panic or an out-of-bounds / dangling access anywhere also counts"],
    "m": [M("c01_atomic_1p2c_n2_k2"), M("c01_atomic_2p1c_n2_k1"), M("c01_fullsync_2p1c_n2_k1"), M("c01_zc_atomic_1p1c_n2_k1"), M("c01_zc_fullsync_1p1c_n2_k1"),
          M("c01_atomic_2p1c_n2_k0", "thorough"), M("c01_atomic_2p2c_n2_k1", "thorough"), M("c01_atomic_2p2c_n4_k3", "thorough"), M("c01_atomic_3p1c_n2_k1", "thorough"),
          M("c01_fullsync_2p2c_n2_k1", "thorough"), M("c01_zc_atomic_2p1c_n2_k1", "thorough"), M("c01_zc_fullsync_2p1c_n2_k1", "thorough")],
    "k": [
        H("c01::c01_ring_atomic_n2_l5", inst="AtomicMove<u32,2>", bounds="L=5 ops {send, send_with, recv, len}, origin any u32, then drain + refill", oracle="array FIFO model; rejected payload/setter handed back unchanged / un-invoked", stubs=_C08_STUBS),
        H("c01::c01_ring_full_sync_n2_l5", inst="FullSyncMove<u32,2>", bounds="L=5, origin any u32", oracle="array FIFO model", stubs=_C08_STUBS),
        H("c01::c01_zc_full_sync_n2_l4", tier="thorough", inst="FullSyncZeroCopy<u32,..,2>", bounds="L=4", stubs=_C08_STUBS, group="g1"),
        H("c01::c01_zc_atomic_n2_l4", tier="thorough", inst="AtomicZeroCopy<u32,..,2>", bounds="L=4", stubs=_C08_STUBS, group="g1"),
        H("c01::c01_ring_atomic_n4_l6", tier="thorough", inst="AtomicMove<u32,4>", bounds="L=6", stubs=_C08_STUBS, group="g1"),
        H("c01::c01_ring_full_sync_n4_l6", tier="thorough", inst="FullSyncMove<u32,4>", bounds="L=6", stubs=_C08_STUBS, group="g1"),
        H("c01::c01_uni_move_atomic_n2_l3", tier="thorough", inst="ChannelUniMoveAtomic<u32,2,1>", bounds="L=3", stubs=_CH_STUBS, group="g2"),
        H("c01::c01_uni_move_full_sync_n2_l3", tier="thorough", inst="ChannelUniMoveFullSync<u32,2,1>", bounds="L=3", stubs=_CH_STUBS, group="g2"),
        H("c01::c01_uni_zero_copy_atomic_n2_l3", tier="thorough", inst="ChannelUniZeroCopyAtomic<u32,2,1>", bounds="L=3", stubs=_CH_STUBS, group="g2"),
        H("c01::c01_uni_zero_copy_full_sync_n2_l3", tier="thorough", inst="ChannelUniZeroCopyFullSync<u32,2,1>", bounds="L=3", stubs=_CH_STUBS, group="g2"),
        H("c01::c01_uni_move_crossbeam_n2_l3", tier="thorough", inst="ChannelUniMoveCrossbeam<u32,2,1>", bounds="L=3", stubs=_CH_STUBS, group="g2"),
    ],
    "k_budget": {"quick": {"jobs": 2, "timeout_s": 1200, "mem_gb": 14}, "thorough": {"jobs": 4, "timeout_s": 10800, "mem_gb": 30}},
}
PROPS["C02"] = {
    "engine": "mir-bmc + kani-real", "technique": _M_TECH,
    "bounds": "engine M: linearizability by symbolic enumeration of all program-order-respecting total orders (<= 6 operations incl. the drain), real-time order from the first/last visible step of every call; BUFFER_SIZE 2 (quick) / 4 (thorough); origin any u32",
    "outside": "histories with more than 6 operations; BUFFER_SIZE > 4; orderings weaker than SC; crossbeam channel (sequential K scripts only)",
    "assumptions": [_M_NOTE, "capacity rule as in the statement: a rejected send is explained when (events in the queue) + (calls in progress during the send) >= BUFFER_SIZE at its linearization point; an empty answer needs an empty queue at its linearization point"],
    "m": [M("c02_atomic_lin_1p2c_n2_k2"), M("c02_atomic_lin_2p1c_n2_k1"), M("c02_atomic_lin_pp_cc_n2_k1"), M("c02_fullsync_lin_2p1c_n2_k1"), M("c02_zc_atomic_lin_p_cc_n2_k1"),
          M("c02_atomic_lin_2p2c_n2_k1", "thorough"), M("c02_atomic_lin_2p2c_n2_k2", "thorough"), M("c02_atomic_lin_2p1c_n4_k3", "thorough"), M("c02_fullsync_lin_2p2c_n2_k1", "thorough"),
          M("c02_zc_atomic_lin_pp_cc_n2_k1", "thorough"), M("c02_zc_fullsync_lin_p_cc_n2_k1", "thorough")],
    "k": [],
}

PROPS["C13"] = {
    "engine": "mir-bmc + kani-real", "technique": _M_TECH,
    "bounds": "engine M: 2-3 threads x <=3 allocator calls, POOL_SIZE 2 (quick) / 4 (thorough), free-list order and origin symbolic, both free-list kinds, linearizability against a bag of slot ids; engine K: scripts of L=5 alloc / dealloc_id / dealloc_ref from any origin with an ownership ledger, exhaust + refill, id<->ref bijection for payloads of 1, 4, 24 bytes",
    "outside": "POOL_SIZE 8; more than 3 threads; orderings weaker than SC",
    "assumptions": [_M_NOTE],
    "m": [M("c13_atomic_n2_a_vs_afa"), M("c13_atomic_n2_exhaust"), M("c13_fullsync_n2_a_vs_afa"), M("c13_atomic_n2_refs", "thorough"),
          M("c13_atomic_n4_3thr", "thorough"), M("c13_fullsync_n2_exhaust", "thorough"), M("c13_atomic_n2_2x_afa", "thorough")],
    "k": [
        H("c13::c13_pool_atomic_n2_l5", inst="OgreArrayPoolAllocator<u32, AtomicMove<u32,2>, 2>", bounds="L=5, origin any u32", oracle="ownership ledger: never a slot that is still allocated; fails only when all are outstanding; id/ref conversions agree", stubs=_C08_STUBS),
        H("c13::c13_pool_full_sync_n2_l5", inst="OgreArrayPoolAllocator<u32, FullSyncMove<u32,2>, 2>", bounds="L=5, origin any u32", stubs=_C08_STUBS),
        H("c13::c13_bijection_u8_n4", inst="pool of u8 x4", bounds="all id pairs", oracle="id<->reference bijection onto the pool", stubs=_C08_STUBS),
        H("c13::c13_bijection_u32_n4", inst="pool of u32 x4", bounds="all id pairs", stubs=_C08_STUBS),
        H("c13::c13_bijection_p24_n4", inst="pool of 24-byte structs x4", bounds="all id pairs", stubs=_C08_STUBS),
        H("c13::c13_pool_atomic_n4_l6", tier="thorough", inst="pool of u32 x4 over AtomicMove", bounds="L=6", stubs=_C08_STUBS, group="g1"),
    ],
    "k_budget": {"quick": {"jobs": 3, "timeout_s": 1200, "mem_gb": 14}, "thorough": {"jobs": 3, "timeout_s": 7200, "mem_gb": 30}},
}
PROPS["C14"] = {
    "engine": "mir-bmc + kani-real", "technique": _M_TECH,
    "bounds": "engine M: 2 (quick) / 3 (thorough) threads each holding one handle to the same pooled value, <=2 operations each out of {clone+drop, bulk increment+raw copy+drop, dereference, count, drop}, then a thread that allocates POOL_SIZE+1 times; engine K: scripts of L<=4 clone / drop / increment+raw_copy / deref+count over new_with_clones::<2> and OgreUnique::new + into_ogre_arc with a destructor-counting payload",
    "outside": "more than 3 threads; Acquire/Release pairing of the final drop (SC only); handles that outlive their allocator",
    "assumptions": [_M_NOTE, "engine M models the control block as a heap object with a ghost 'alive' bit: any access after Box::from_raw + drop is an error"],
    "m": [M("c14_last_two_drops"), M("c14_clone_vs_final_drop"), M("c14_bulk_increment_vs_drop"), M("c14_three_threads", "thorough"), M("c14_fullsync_last_two_drops", "thorough"), M("c14_keep_one", "thorough")],
    "k": [
        H("c14::c14_new_with_clones_script_l4", inst="OgreArc<Payload, pool x2 over AtomicMove>", bounds="L=4, origin any u32", oracle="destructor runs exactly once, exactly at the last drop; count == live handles; deref == original value; slot returned exactly once", stubs=_C08_STUBS),
        H("c14::c14_unique_into_arc_script_l3", inst="OgreUnique -> OgreArc", bounds="L=3", stubs=_C08_STUBS),
    ],
    "k_budget": {"quick": {"jobs": 2, "timeout_s": 1200, "mem_gb": 14}},
}
