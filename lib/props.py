"""Per-property specification: which Kani harnesses (engine K) and which MIR-BMC queries (engine M)
decide it, at which tier, with which bounds. Harness source: /verif/kani/src/<module>.rs."""

COMMON_ASSUMPTIONS = [
    "engine K: Kani 0.68 / CBMC 6.11 + CaDiCaL are trusted; Kani executes atomics sequentially (no preemption): "
    "interleavings are covered only as 'well-nested depth 1' interference at the `verif::yield_point()` hooks, where stated",
    "engine K: /repo is compiled with the cargo feature `verif` (adds yield-point calls, sequence-origin hooks, re-exports; no behavioural change)",
    "bounded verdicts: loops unrolled to the stated bound with unwinding assertions ON; anything beyond the bounds is outside the claim",
    "memory model: sequential consistency; weakened atomic orderings are not detected",
]

def H(name, tier="quick", **kw):
    d = {"name": name, "tier": tier}
    d.update(kw)
    return d

PROPS = {}

PROPS["C15"] = {
    "bounds": "engine K: two instances of the same container (origin 0 vs. origin = any u32), same solver-chosen script of L<=5 (quick) operations send(any u32)/recv/len, then a full drain; BUFFER_SIZE 2 (quick), 4 (thorough)",
    "outside": "BUFFER_SIZE > 4; scripts longer than L; usize counters of the mmap log; release-profile (overflow-checks=off) builds in the quick tier",
    "functions": ["AtomicMove::{publish_movable,consume_movable,available_elements_count,leak_slot_internal,publish_leaked_internal,consume_leaking_internal,release_leaked_internal}",
                  "FullSyncMove::{publish_movable,consume_movable,available_elements_count,leak_slot_internal,publish_leaked_internal,consume_leaking_internal,release_leaked_internal}"],
    "assumptions": ["script operations are limited to send / receive / length query on the container-level API (reservation scripts are in the C08 harnesses, which also use a free origin)"],
    "k": [
        H("c15::c15_atomic_move_n2_l5", inst="AtomicMove<u32,2>", bounds="L=5, origin any u32", oracle="answers identical to a fresh (origin 0) instance"),
        H("c15::c15_full_sync_move_n2_l5", inst="FullSyncMove<u32,2>", bounds="L=5, origin any u32", oracle="answers identical to a fresh (origin 0) instance"),
    ],
}
