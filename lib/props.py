"""Per-property specification: which Kani harnesses (engine K) and which MIR-BMC queries (engine M)
decide it, at which tier, with which bounds. Harness source: /verif/kani/src/<module>.rs."""

COMMON_ASSUMPTIONS = [
    "engine K: Kani 0.68 / CBMC 6.11 + CaDiCaL are trusted; Kani executes atomics sequentially (no preemption): "
    "interleavings are covered only as 'well-nested depth 1' interference at the `verif::yield_point()` hooks, where stated",
    "engine K: /repo is compiled with the cargo feature `verif` (adds yield-point calls, sequence-origin hooks, re-exports; no behavioural change)",
    "bounded verdicts: loops unrolled to the stated bound with unwinding assertions ON; anything beyond the bounds is outside the claim",
    "memory model: sequential consistency; weakened atomic orderings are not detected",
]

def H(name, tier="quick", **kw):
    d = {"name": name, "tier": tier}
    d.update(kw)
    return d

PROPS = {}

PROPS["C15"] = {
    "bounds": "engine K: two instances of the same container (origin 0 vs. origin = any u32), same solver-chosen script of L<=5 (quick) operations send(any u32)/recv/len, then a full drain; BUFFER_SIZE 2 (quick), 4 (thorough)",
    "outside": "BUFFER_SIZE > 4; scripts longer than L; usize counters of the mmap log; release-profile (overflow-checks=off) builds in the quick tier",
    "functions": ["AtomicMove::{publish_movable,consume_movable,available_elements_count,leak_slot_internal,publish_leaked_internal,consume_leaking_internal,release_leaked_internal}",
                  "FullSyncMove::{publish_movable,consume_movable,available_elements_count,leak_slot_internal,publish_leaked_internal,consume_leaking_internal,release_leaked_internal}"],
    "assumptions": ["script operations are limited to send / receive / length query on the container-level API (reservation scripts are in the C08 harnesses, which also use a free origin)"],
    "k": [
        H("c15::c15_atomic_move_n2_l5", inst="AtomicMove<u32,2>", bounds="L=5, origin any u32", oracle="answers identical to a fresh (origin 0) instance"),
        H("c15::c15_full_sync_move_n2_l5", inst="FullSyncMove<u32,2>", bounds="L=5, origin any u32", oracle="answers identical to a fresh (origin 0) instance"),
    ],
}

_C08_STUBS = ["std::hint::spin_loop -> no-op (the x86 `pause` intrinsic is unsupported by Kani and has no semantics)"]
_CH_STUBS = _C08_STUBS + ["StreamsManagerBase::wake_stream -> no-op (delivery-only oracle: waking cannot change what consume() returns)",
                          "<[u32]>::sort_unstable -> insertion sort (justified by c00::sort_stub_agrees_with_real_sort)"]
PROPS["C08"] = {
    "bounds": "engine K: solver-chosen scripts of L operations out of {reserve+fill(any u32), send-reserved(oldest), send-reserved(newest, out of order), cancel(newest), plain send(any u32), receive}, origin any u32, then resolve all reservations (solver picks send/cancel), drain, refill BUFFER_SIZE, one extra send must be rejected; L=5,N=2 (quick) / L=6,N=4 (thorough)",
    "outside": "payloads with destructors (excluded by the statement); BUFFER_SIZE > 4; scripts longer than L; interleavings with a concurrently polling consumer are covered by engine M queries only within their thread/step bounds",
    "functions": ["AtomicMove::{leak_slot_internal,try_publish_leaked_internal_index,try_unleak_slot_index_internal,slot_index_from_slot_ref,publish_movable,consume_movable}",
                  "AtomicZeroCopy/FullSyncZeroCopy::{leak_slot,publish_leaked_id,release_leaked_id,publish_movable,consume_leaking}", "OgreArrayPoolAllocator::{alloc_ref,dealloc_id,ref_from_id}",
                  "uni::channels::movable::atomic::Atomic::{reserve_slot,try_send_reserved,try_cancel_slot_reserve,send,consume} (thorough)"],
    "assumptions": ["cancellations are issued in reverse reservation order and plain sends only while no reservation is outstanding on the movable atomic ring (both documented restrictions)",
                    "the reservation that is next in line must be accepted by try_send_reserved in a sequential run (otherwise it could never be sent)"],
    "k": [
        H("c08::c08_ring_atomic_n2_l5", inst="AtomicMove<u32,2> driven as uni::channels::movable::atomic does", bounds="L=5, N=2, origin any u32", oracle="FIFO model of sent slots; capacity restored", stubs=_C08_STUBS),
        H("c08::c08_zc_atomic_n2_l5", inst="AtomicZeroCopy<u32, OgreArrayPoolAllocator<u32,AtomicMove<u32,2>,2>, 2>", bounds="L=5, N=2, origin any u32", oracle="FIFO model of sent slots; capacity restored", stubs=_C08_STUBS),
        H("c08::c08_zc_full_sync_n2_l5", inst="FullSyncZeroCopy<u32, OgreArrayPoolAllocator<u32,FullSyncMove<u32,2>,2>, 2>", bounds="L=5, N=2, origin any u32", oracle="FIFO model of sent slots; capacity restored", stubs=_C08_STUBS),
        H("c08::c08_ring_atomic_n4_l6", tier="thorough", inst="AtomicMove<u32,4>", bounds="L=6, N=4, origin any u32", stubs=_C08_STUBS, group="g1"),
        H("c08::c08_uni_move_atomic_n2_l3", tier="thorough", inst="ChannelUniMoveAtomic<u32,2,1>", bounds="L=3", stubs=_CH_STUBS, group="g1"),
        H("c08::c08_uni_zero_copy_atomic_n2_l3", tier="thorough", inst="ChannelUniZeroCopyAtomic<u32,2,1>", bounds="L=3", stubs=_CH_STUBS, group="g1"),
        H("c08::c08_uni_zero_copy_full_sync_n2_l3", tier="thorough", inst="ChannelUniZeroCopyFullSync<u32,2,1>", bounds="L=3", stubs=_CH_STUBS, group="g1"),
    ],
}
