#!/bin/bash
# Run once after a fresh restore (offline). Warms the build caches the checks use, so that the quick checks start fast:
#   - the Kani build of the harness crate (+ /repo with feature `verif`, + Kani's std) in /verif/.build/kani-target
#   - the native replayer of engine-M counterexamples
#   - the MIR dump of /repo's current tree (nightly rustc)
# Nothing here is evidence: every check rebuilds from /repo's working tree (cargo fingerprints / a content digest of
# /repo/src decide whether the caches are still valid).
set -u
cd "$(dirname "$0")"
export CARGO_NET_OFFLINE=true
mkdir -p .build/logs evidence replays
cp /repo/Cargo.lock kani/Cargo.lock 2>/dev/null || true
cp /repo/Cargo.lock replay/Cargo.lock 2>/dev/null || true
( cd kani && timeout 1500 cargo kani --target-dir "$PWD/../.build/kani-target" -Z stubbing --exact --harness c15::c15_atomic_move_n2_l5 --only-codegen > ../.build/logs/setup-kani.log 2>&1 ) &
( cd replay && CARGO_TARGET_DIR="$PWD/../.build/replay-target" timeout 900 cargo build --offline > ../.build/logs/setup-replay.log 2>&1 ) &
( timeout 900 python3-vt -c "import sys; sys.path.insert(0, 'mir'); import mirdump; print(mirdump.dump())" > .build/logs/setup-mir.log 2>&1 ) &
wait
exit 0
