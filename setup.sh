#!/bin/bash
# Run once after a fresh restore (offline): warms the Kani build of the harness crate so that checks start quickly.
# Everything is rebuilt from /repo's working tree by the checks themselves; this is only a cache warm-up.
set -u
cd "$(dirname "$0")"
export CARGO_NET_OFFLINE=true
mkdir -p .build/logs evidence replays
cp /repo/Cargo.lock kani/Cargo.lock 2>/dev/null || true
exit 0
