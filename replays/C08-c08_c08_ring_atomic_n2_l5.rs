// counterexample for C08 found by Kani harness c08::c08_ring_atomic_n2_l5
// failed checks:
//   attempt to subtract with overflow @ ../../repo/src/ogre_std/ogre_queues/atomic/atomic_move.rs:304:24 in function reactive_mutiny::ogre_std::ogre_queues::atomic::atomic_move::AtomicMove::<u32, 2>::try_unleak_slot_index_internal
// replay: append this test to /verif/kani/src/c08.rs and run `cargo kani playback -Z concrete-playback`
/// Test generated for harness `c08::c08_ring_atomic_n2_l5` 
///
/// Check for `assertion`: "attempt to subtract with overflow"
///
/// # Warning
///
/// Concrete playback tests combined with stubs or contracts is highly
/// experimental, and subject to change.
///
/// The original harness has stubs which are not applied to this test.
/// This may cause a mismatch of non-deterministic values if the stub
/// creates any non-deterministic value.
/// The execution path may also differ, which can be used to refine the stub
/// logic.

#[test]
fn kani_concrete_playback_c08_ring_atomic_n2_l5_10394551134514562068() {
    let concrete_vals: Vec<Vec<u8>> = vec![
        // 4294967295
        vec![255, 255, 255, 255],
        // 5
        vec![5],
        // 0
        vec![0],
        // 0
        vec![0, 0, 0, 0],
        // 3
        vec![3],
    ];
    kani::concrete_playback_run(concrete_vals, c08_ring_atomic_n2_l5);
}
