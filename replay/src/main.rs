//! Controlled-scheduler replay of a model counterexample against the REAL code.
//!
//! stdin: a small line-based spec
//!   object <Kind> <N>
//!   origin <u32> [<u32> ..]            sequence origins of the ring buffers to be created (see verif::set_sequence_origins)
//!   prefill <v> <v> ..                 events sent (sequentially) before the threads start
//!   thread <op>[:<arg>] <op>[:<arg>] ..   one line per thread; arg may be a number or `r<j>` = result value of the thread's j-th op
//!   after <op> ..                      ops run by a final thread after all others are done (the drain)
//!   segments <t>:<n> <t>:<n> ..        thread t runs n yield-segments, in this order; afterwards every unfinished thread is
//!                                      run to completion in ascending thread order
//! stdout: one line per operation:  ev <thread> <call> <op> <arg> <first> <last> <result..>   (first/last = global segment counter)
//!         `stuck <thread>` if a thread cannot finish within the segment cap; `panic <thread> <msg>` if an operation panicked

use reactive_mutiny::ogre_std::ogre_queues::{
    atomic::{atomic_move::AtomicMove, atomic_zero_copy::AtomicZeroCopy},
    full_sync::{full_sync_move::FullSyncMove, full_sync_zero_copy::FullSyncZeroCopy},
    meta_container::{MoveContainer, MetaContainer},
    meta_publisher::{MovePublisher, MetaPublisher},
    meta_subscriber::{MoveSubscriber, MetaSubscriber},
};
use reactive_mutiny::ogre_std::ogre_alloc::{ogre_array_pool_allocator::OgreArrayPoolAllocator, BoundedOgreAllocator, ogre_arc::OgreArc};
unsafe impl<const N: usize> Send for ArcA<N> {}
unsafe impl<const N: usize> Sync for ArcA<N> {}
unsafe impl<const N: usize> Send for ArcF<N> {}
unsafe impl<const N: usize> Sync for ArcF<N> {}
use reactive_mutiny::ogre_std::ogre_stacks::{OgreStack, non_blocking_atomic_stack::Stack};
use reactive_mutiny::verif;
use std::cell::Cell;
use std::io::Read;
use std::sync::{Arc, Condvar, Mutex};
use std::sync::atomic::{AtomicU64, AtomicUsize, Ordering::SeqCst};

#[derive(Clone, Copy, PartialEq, Debug)]
enum St { NotStarted, AtYield, Running, Finished, Parked }

struct Sched { turn: Option<usize>, st: Vec<St> }
static SCHED: Mutex<Option<Sched>> = Mutex::new(None);
static CV: Condvar = Condvar::new();
static CLOCK: AtomicU64 = AtomicU64::new(0);
static ACTIVE: AtomicUsize = AtomicUsize::new(0);
thread_local! { static ME: Cell<usize> = Cell::new(usize::MAX); static FIRST: Cell<u64> = Cell::new(u64::MAX); }
/// executor model: WOKEN[task] is set by the task's waker; PARKED_TASK[thread] = task the thread is parked on (or usize::MAX)
static WOKEN: [std::sync::atomic::AtomicBool; 4] = [std::sync::atomic::AtomicBool::new(false), std::sync::atomic::AtomicBool::new(false), std::sync::atomic::AtomicBool::new(false), std::sync::atomic::AtomicBool::new(false)];
static PARKED_TASK: [AtomicUsize; 8] = [AtomicUsize::new(usize::MAX), AtomicUsize::new(usize::MAX), AtomicUsize::new(usize::MAX), AtomicUsize::new(usize::MAX), AtomicUsize::new(usize::MAX), AtomicUsize::new(usize::MAX), AtomicUsize::new(usize::MAX), AtomicUsize::new(usize::MAX)];

/// the calling thread's task found nothing to do: it parks until its waker is invoked (under the controlled scheduler the thread
/// is then not runnable; free-running, it spins politely with a deadline)
fn park(task: usize) -> bool {
    let me = ME.with(|m| m.get());
    if me == usize::MAX || ACTIVE.load(SeqCst) == 0 {
        let t0 = std::time::Instant::now();
        loop {
            if task == SENDERS_DONE { if WOKEN[task].load(SeqCst) { return true; } } else if WOKEN[task].swap(false, SeqCst) { return true; }
            if t0.elapsed() > std::time::Duration::from_millis(if task == SENDERS_DONE { 2000 } else { 30 }) { return false; }
            std::thread::yield_now();
        }
    }
    let mut g = SCHED.lock().unwrap();
    PARKED_TASK[me].store(task, SeqCst);
    g.as_mut().unwrap().st[me] = St::Parked;
    CV.notify_all();
    while g.as_ref().unwrap().turn != Some(me) { g = CV.wait(g).unwrap(); }
    let s = g.as_mut().unwrap();
    s.turn = None; s.st[me] = St::Running;
    PARKED_TASK[me].store(usize::MAX, SeqCst);
    drop(g);
    if task != SENDERS_DONE { WOKEN[task].store(false, SeqCst); }
    true
}

/// pseudo task: "every thread whose program starts with `send` has returned" (set by the thread runner)
const SENDERS_DONE: usize = 3;
static LIVE_SENDERS: AtomicUsize = AtomicUsize::new(0);

fn task_waker(task: usize) -> std::task::Waker {
    use std::task::{RawWaker, RawWakerVTable, Waker};
    fn clone(d: *const ()) -> RawWaker { RawWaker::new(d, &VT) }
    fn wake(d: *const ()) { WOKEN[d as usize - 1].store(true, SeqCst); }
    fn noop(_: *const ()) {}
    static VT: RawWakerVTable = RawWakerVTable::new(clone, wake, wake, noop);
    unsafe { Waker::from_raw(RawWaker::new((task + 1) as *const (), &VT)) }
}

fn yield_cb() {
    let me = ME.with(|m| m.get());
    if me == usize::MAX || ACTIVE.load(SeqCst) == 0 { return; }
    let mut g = SCHED.lock().unwrap();
    g.as_mut().unwrap().st[me] = St::AtYield;
    CV.notify_all();
    while g.as_ref().unwrap().turn != Some(me) { g = CV.wait(g).unwrap(); }
    let s = g.as_mut().unwrap();
    s.turn = None; s.st[me] = St::Running;
    drop(g);
    FIRST.with(|f| if f.get() == u64::MAX { f.set(CLOCK.load(SeqCst)); });
}

/// scheduler side: lets thread `t` run one segment; returns false if it is already finished
fn grant(t: usize) -> bool {
    let mut g = SCHED.lock().unwrap();
    loop {
        let s = g.as_ref().unwrap();
        match s.st[t] {
            St::Finished => return false,
            St::AtYield => break,
            St::Parked => { let task = PARKED_TASK[t].load(SeqCst); if task != usize::MAX && WOKEN[task].load(SeqCst) { break; } else { return false; } }
            _ => { g = CV.wait(g).unwrap(); }
        }
    }
    CLOCK.fetch_add(1, SeqCst);
    g.as_mut().unwrap().turn = Some(t);
    g.as_mut().unwrap().st[t] = St::Running;
    CV.notify_all();
    loop {
        let s = g.as_ref().unwrap();
        if s.st[t] == St::Running || s.turn == Some(t) { g = CV.wait(g).unwrap(); } else { break; }
    }
    true
}

trait Obj: Send + Sync {
    /// performs one operation; `prev` = results of the calling thread's earlier operations; returns (value usable as `r<j>`, text)
    fn op(&self, name: &str, arg: u64, prev: &[u64]) -> (u64, String);
}

const NONE: u64 = u64::MAX;
fn show_opt(v: Option<u32>) -> (u64, String) { match v { Some(x) => (x as u64, format!("some {}", x)), None => (NONE, "none".into()) } }

macro_rules! ring_obj {
    ($name:ident, $ty:ident) => {
        struct $name<const N: usize>($ty<u32, N>);
        impl<const N: usize> Obj for $name<N> {
            fn op(&self, name: &str, arg: u64, _prev: &[u64]) -> (u64, String) {
                match name {
                    "send" => { let ok = self.0.publish_movable(arg as u32).0.is_some(); (ok as u64, format!("ok {}", ok)) }
                    "recv" | "drain" => show_opt(self.0.consume_movable()),
                    "len" => { let l = self.0.available_elements_count(); (l as u64, format!("len {}", l)) }
                    "reserve" => { let r = self.0.leak_slot_internal(|| false).is_some(); (r as u64, format!("ok {}", r)) }
                    _ => panic!("unknown op {}", name),
                }
            }
        }
    };
}
ring_obj!(AtomicRing, AtomicMove);
ring_obj!(FullSyncRing, FullSyncMove);

type AllocA<const N: usize> = OgreArrayPoolAllocator<u32, AtomicMove<u32, N>, N>;
type AllocF<const N: usize> = OgreArrayPoolAllocator<u32, FullSyncMove<u32, N>, N>;

macro_rules! zc_obj {
    ($name:ident, $ty:ident, $alloc:ident) => {
        struct $name<const N: usize>($ty<u32, $alloc<N>, N>);
        impl<const N: usize> Obj for $name<N> {
            fn op(&self, name: &str, arg: u64, _prev: &[u64]) -> (u64, String) {
                match name {
                    "send" => { let ok = self.0.publish_movable(arg as u32).0.is_some(); (ok as u64, format!("ok {}", ok)) }
                    "recv" | "drain" => match self.0.consume_leaking() {
                        Some((r, id)) => { let v = *r; self.0.release_leaked_id(id); show_opt(Some(v)) }
                        None => show_opt(None),
                    },
                    "reserve" => { let r = self.0.leak_slot().is_some(); (r as u64, format!("ok {}", r)) }
                    _ => panic!("unknown op {}", name),
                }
            }
        }
    };
}
zc_obj!(AtomicZc, AtomicZeroCopy, AllocA);
zc_obj!(FullSyncZc, FullSyncZeroCopy, AllocF);

macro_rules! alloc_obj {
    ($name:ident, $alloc:ident) => {
        struct $name<const N: usize>($alloc<N>);
        impl<const N: usize> Obj for $name<N> {
            fn op(&self, name: &str, arg: u64, _prev: &[u64]) -> (u64, String) {
                match name {
                    "alloc" => match self.0.alloc_ref() { Some((_r, id)) => (id as u64, format!("some {}", id)), None => (NONE, "none".into()) },
                    "dealloc" => { if arg != NONE { self.0.dealloc_id(arg as u32); (0, "done".into()) } else { (0, "skipped".into()) } }
                    "dealloc_ref" => { if arg != NONE { let r = self.0.ref_from_id(arg as u32); self.0.dealloc_ref(r); (0, "done".into()) } else { (0, "skipped".into()) } }
                    _ => panic!("unknown op {}", name),
                }
            }
        }
    };
}
alloc_obj!(PoolA, AllocA);
alloc_obj!(PoolF, AllocF);

struct StackObj<const N: usize>(Stack<u32, N, false, false>);
impl<const N: usize> Obj for StackObj<N> {
    fn op(&self, name: &str, arg: u64, _prev: &[u64]) -> (u64, String) {
        match name {
            "push" => { let ok = self.0.push(arg as u32); (ok as u64, format!("ok {}", ok)) }
            "pop" | "drain" => show_opt(self.0.pop()),
            _ => panic!("unknown op {}", name),
        }
    }
}

/// one pooled value with one OgreArc handle per thread (`arg` of every op = the calling thread's index, filled in by the driver)
macro_rules! arc_obj {
    ($name:ident, $alloc:ident) => {
        struct $name<const N: usize> { alloc: &'static $alloc<N>, handles: Mutex<Vec<Option<OgreArc<u32, $alloc<N>>>>> }
        impl<const N: usize> $name<N> {
            fn new() -> Self { Self { alloc: Box::leak(Box::new(BoundedOgreAllocator::new())), handles: Mutex::new(vec![]) } }
            fn h(&self, t: usize) -> OgreArc<u32, $alloc<N>> { unsafe { self.handles.lock().unwrap()[t].as_ref().unwrap().raw_copy() } }
        }
        impl<const N: usize> Obj for $name<N> {
            fn op(&self, name: &str, arg: u64, _prev: &[u64]) -> (u64, String) {
                let t = arg as usize;
                match name {
                    "create" => {   // arg = value; creates the value with ONE handle; "handle" adds one more (clone) per thread
                        let a = OgreArc::new_with(|s| *s = arg as u32, self.alloc).unwrap(); self.handles.lock().unwrap().push(Some(a)); (0, "done".into())
                    }
                    "handle" => { let c = self.handles.lock().unwrap()[0].as_ref().unwrap().clone(); self.handles.lock().unwrap().push(Some(c)); (0, "done".into()) }
                    "drop" => { let h = self.handles.lock().unwrap()[t].take().unwrap(); drop(h); (0, "done".into()) }
                    "clone_drop" => { let h = std::mem::ManuallyDrop::new(self.h(t)); let c = (*h).clone(); drop(c); (0, "done".into()) }
                    "inc_rawcopy_drop" => { let h = std::mem::ManuallyDrop::new(self.h(t)); let c = unsafe { h.increment_references(1).raw_copy() }; drop(c); (0, "done".into()) }
                    "read" => { let h = std::mem::ManuallyDrop::new(self.h(t)); let v = **h; (v as u64, format!("val {}", v)) }
                    "count" => { let h = std::mem::ManuallyDrop::new(self.h(t)); let v = h.references_count(); (v as u64, format!("val {}", v)) }
                    "alloc" => match self.alloc.alloc_ref() { Some((_r, id)) => (id as u64, format!("some {}", id)), None => (NONE, "none".into()) },
                    _ => panic!("unknown op {}", name),
                }
            }
        }
    };
}
arc_obj!(ArcA, AllocA);
arc_obj!(ArcF, AllocF);

struct UniMoveAtomicObj<const N: usize>(Arc<reactive_mutiny::prelude::advanced::ChannelUniMoveAtomic<u32, N, 1>>);
impl<const N: usize> Obj for UniMoveAtomicObj<N> {
    fn op(&self, name: &str, arg: u64, _prev: &[u64]) -> (u64, String) {
        use reactive_mutiny::prelude::*;
        match name {
            "send" => { let ok = self.0.send(arg as u32).is_ok(); (ok as u64, format!("ok {}", ok)) }
            "recv" | "drain" => show_opt(self.0.consume(0)),
            "reserve_send_or_cancel" => {
                match self.0.reserve_slot() {
                    None => (0, "code 0".into()),
                    Some(slot) => {
                        *slot = arg as u32;
                        let p = slot as *mut u32;
                        let code = if self.0.try_send_reserved(unsafe { &mut *p }) { 1 }
                                   else if self.0.try_cancel_slot_reserve(unsafe { &mut *p }) { 2 }
                                   else if self.0.try_send_reserved(unsafe { &mut *p }) { 1 } else { 3 };
                        (code, format!("code {}", code))
                    }
                }
            }
            _ => panic!("unknown op {}", name),
        }
    }
}

struct MetricObj(verif::AtomicIncrementalAverage64);
unsafe impl Send for MetricObj {}
unsafe impl Sync for MetricObj {}
impl Obj for MetricObj {
    fn op(&self, name: &str, arg: u64, _prev: &[u64]) -> (u64, String) {
        match name {
            "inc" => { self.0.inc(f32::from_bits(arg as u32)); (0, "done".into()) }
            "probe" => { let (c, a) = self.0.probe(); (c as u64, format!("pair {} {}", c, a.to_bits())) }
            _ => panic!("unknown op {}", name),
        }
    }
}


/// a Uni channel with `NS` streams, each driven by the executor model (poll_next; park when Pending; re-poll when woken; stop at end-of-stream)
macro_rules! stream_obj {
    ($name:ident, $chan:ident) => {
        struct $name<const N: usize, const MS: usize> {
            chan: Arc<reactive_mutiny::prelude::advanced::$chan<u32, N, MS>>,
            streams: Vec<Mutex<Option<std::pin::Pin<Box<dyn futures::Stream<Item = u32> + Send>>>>>,
            ended: Vec<std::sync::atomic::AtomicBool>,
        }
        impl<const N: usize, const MS: usize> $name<N, MS> {
            fn new(ns: usize, parked: bool) -> Self {
                use reactive_mutiny::prelude::*;
                let chan: Arc<reactive_mutiny::prelude::advanced::$chan<u32, N, MS>> = ChannelCommon::new("c");
                let mut streams = vec![]; let mut ended = vec![];
                for i in 0..ns {
                    let (st, id) = chan.create_stream(); assert_eq!(id as usize, i);
                    let mut st: std::pin::Pin<Box<dyn futures::Stream<Item = u32> + Send>> = Box::pin(st);
                    if parked {      // the stream has parked once: its waker is registered
                        let w = task_waker(i); let mut cx = std::task::Context::from_waker(&w);
                        assert!(st.as_mut().poll_next(&mut cx).is_pending());
                    }
                    streams.push(Mutex::new(Some(st))); ended.push(std::sync::atomic::AtomicBool::new(false));
                }
                for w in WOKEN.iter() { w.store(false, SeqCst); }
                Self { chan, streams, ended }
            }
        }
        impl<const N: usize, const MS: usize> Obj for $name<N, MS> {
            fn op(&self, name: &str, arg: u64, _prev: &[u64]) -> (u64, String) {
                use reactive_mutiny::prelude::*;
                match name {
                    "send" => { let ok = self.chan.send(arg as u32).is_ok(); (ok as u64, format!("ok {}", ok)) }
                    "reserve_send_or_cancel" => self.reserve_send_or_cancel(arg as u32),
                    "cancel_all" => { self.chan.cancel_all_streams(); (0, "done".into()) }
                    "cancel" => { self.chan.verif_streams_manager().cancel_stream(arg as u32); (0, "done".into()) }
                    "drive" => {
                        let i = arg as usize;
                        let mut st = self.streams[i].lock().unwrap().take().unwrap();
                        let w = task_waker(i); let mut cx = std::task::Context::from_waker(&w);
                        let mut got: Vec<u32> = vec![];
                        loop {
                            match st.as_mut().poll_next(&mut cx) {
                                std::task::Poll::Ready(Some(v)) => got.push(v),
                                std::task::Poll::Ready(None) => { self.ended[i].store(true, SeqCst); break; }
                                std::task::Poll::Pending => { if !park(i) { break; } }
                            }
                        }
                        std::mem::forget(st);
                        (got.len() as u64, format!("got {}", got.iter().map(|v| v.to_string()).collect::<Vec<_>>().join(",")))
                    }
                    "pending" => { let l = self.chan.pending_items_count(); (l as u64, format!("len {}", l)) }
                    "ended" => { let e = self.ended[arg as usize].load(SeqCst); (e as u64, format!("ended {}", e)) }
                    _ => panic!("unknown op {}", name),
                }
            }
        }
    };
}
stream_obj!(StreamUniAtomic, ChannelUniMoveAtomic);
stream_obj!(StreamUniFullSync, ChannelUniMoveFullSync);
impl<const N: usize, const MS: usize> StreamUniAtomic<N, MS> {
    fn reserve_send_or_cancel(&self, v: u32) -> (u64, String) {
        use reactive_mutiny::prelude::*;
        match self.chan.reserve_slot() {
            None => (0, "code 0".into()),
            Some(slot) => {
                *slot = v;
                let p = slot as *mut u32;
                let code = if self.chan.try_send_reserved(unsafe { &mut *p }) { 1 }
                           else if self.chan.try_cancel_slot_reserve(unsafe { &mut *p }) { 2 }
                           else if self.chan.try_send_reserved(unsafe { &mut *p }) { 1 } else { 3 };
                (code, format!("code {}", code))
            }
        }
    }
}
impl<const N: usize, const MS: usize> StreamUniFullSync<N, MS> {
    fn reserve_send_or_cancel(&self, _v: u32) -> (u64, String) { panic!("the movable full-sync channel has no reservation API") }
}

/// a Multi (Arc) channel with `NS` listeners, each driven by the executor model (see stream_obj!)
macro_rules! multi_stream_obj {
    ($name:ident, $chan:ident) => {
        struct $name<const N: usize, const MS: usize> {
            chan: Arc<reactive_mutiny::prelude::advanced::$chan<u32, N, MS>>,
            streams: Vec<Mutex<Option<std::pin::Pin<Box<dyn futures::Stream<Item = Arc<u32>> + Send>>>>>,
            ended: Vec<std::sync::atomic::AtomicBool>,
        }
        impl<const N: usize, const MS: usize> $name<N, MS> {
            fn new(ns: usize, parked: bool) -> Self {
                use reactive_mutiny::prelude::*;
                let chan: Arc<reactive_mutiny::prelude::advanced::$chan<u32, N, MS>> = ChannelCommon::new("c");
                let mut streams = vec![]; let mut ended = vec![];
                for i in 0..ns {
                    let (st, id) = chan.create_stream_for_new_events(); assert_eq!(id as usize, i);
                    let mut st: std::pin::Pin<Box<dyn futures::Stream<Item = Arc<u32>> + Send>> = Box::pin(st);
                    if parked {
                        let w = task_waker(i); let mut cx = std::task::Context::from_waker(&w);
                        assert!(st.as_mut().poll_next(&mut cx).is_pending());
                    }
                    streams.push(Mutex::new(Some(st))); ended.push(std::sync::atomic::AtomicBool::new(false));
                }
                for w in WOKEN.iter() { w.store(false, SeqCst); }
                Self { chan, streams, ended }
            }
        }
        impl<const N: usize, const MS: usize> Obj for $name<N, MS> {
            fn op(&self, name: &str, arg: u64, _prev: &[u64]) -> (u64, String) {
                use reactive_mutiny::prelude::*;
                match name {
                    "send" => { let ok = self.chan.send(arg as u32).is_ok(); (ok as u64, format!("ok {}", ok)) }
                    "cancel_all" => { self.chan.cancel_all_streams(); (0, "done".into()) }
                    "drive" => {
                        let i = arg as usize;
                        let mut st = self.streams[i].lock().unwrap().take().unwrap();
                        let w = task_waker(i); let mut cx = std::task::Context::from_waker(&w);
                        let mut got: Vec<u32> = vec![];
                        loop {
                            match st.as_mut().poll_next(&mut cx) {
                                std::task::Poll::Ready(Some(v)) => got.push(*v),
                                std::task::Poll::Ready(None) => { self.ended[i].store(true, SeqCst); break; }
                                std::task::Poll::Pending => { if !park(i) { break; } }
                            }
                        }
                        std::mem::forget(st);
                        (got.len() as u64, format!("got {}", got.iter().map(|v| v.to_string()).collect::<Vec<_>>().join(",")))
                    }
                    "pending" => { let l = self.chan.pending_items_count(); (l as u64, format!("len {}", l)) }
                    "ended" => { let e = self.ended[arg as usize].load(SeqCst); (e as u64, format!("ended {}", e)) }
                    _ => panic!("unknown op {}", name),
                }
            }
        }
    };
}
multi_stream_obj!(StreamMultiArcAtomic, ChannelMultiArcAtomic);
multi_stream_obj!(StreamMultiArcFullSync, ChannelMultiArcFullSync);

/// the mmap-log Multi channel with `NS` new-events listeners, each driven by the executor model
struct StreamMultiMmapLog<const MS: usize> {
    chan: Arc<reactive_mutiny::prelude::advanced::ChannelMultiMmapLog<u32, MS>>,
    streams: Vec<Mutex<Option<std::pin::Pin<Box<dyn futures::Stream<Item = &'static u32> + Send>>>>>,
    ended: Vec<std::sync::atomic::AtomicBool>,
    consumed: Vec<AtomicUsize>,
    sent: AtomicUsize,
}
impl<const MS: usize> StreamMultiMmapLog<MS> {
    fn new(ns: usize, parked: bool) -> Self {
        use reactive_mutiny::prelude::*;
        static N: AtomicUsize = AtomicUsize::new(0);
        let name = format!("rmreplay-chan-{}-{}", std::process::id(), N.fetch_add(1, SeqCst));      // the channel maps /tmp/<name>.mmap
        let chan: Arc<reactive_mutiny::prelude::advanced::ChannelMultiMmapLog<u32, MS>> = ChannelCommon::new(name.clone());
        let _ = std::fs::remove_file(format!("/tmp/{}.mmap", name));
        let mut streams = vec![]; let mut ended = vec![]; let mut consumed = vec![];
        for i in 0..ns {
            let (st, id) = chan.create_stream_for_new_events(); assert_eq!(id as usize, i);
            let mut st: std::pin::Pin<Box<dyn futures::Stream<Item = &'static u32> + Send>> = Box::pin(st);
            if parked {
                let w = task_waker(i); let mut cx = std::task::Context::from_waker(&w);
                assert!(st.as_mut().poll_next(&mut cx).is_pending());
            }
            streams.push(Mutex::new(Some(st))); ended.push(std::sync::atomic::AtomicBool::new(false)); consumed.push(AtomicUsize::new(0));
        }
        for w in WOKEN.iter() { w.store(false, SeqCst); }
        Self { chan, streams, ended, consumed, sent: AtomicUsize::new(0) }
    }
}
impl<const MS: usize> Obj for StreamMultiMmapLog<MS> {
    fn op(&self, name: &str, arg: u64, _prev: &[u64]) -> (u64, String) {
        use reactive_mutiny::prelude::*;
        match name {
            "send" => { let ok = self.chan.send(arg as u32).is_ok(); if ok { self.sent.fetch_add(1, SeqCst); } (ok as u64, format!("ok {}", ok)) }
            "cancel_all" => { self.chan.cancel_all_streams(); (0, "done".into()) }
            "drive" => {
                let i = arg as usize;
                let mut st = self.streams[i].lock().unwrap().take().unwrap();
                let w = task_waker(i); let mut cx = std::task::Context::from_waker(&w);
                let mut got: Vec<u32> = vec![];
                loop {
                    match st.as_mut().poll_next(&mut cx) {
                        std::task::Poll::Ready(Some(v)) => { got.push(*v); self.consumed[i].fetch_add(1, SeqCst); }
                        std::task::Poll::Ready(None) => { self.ended[i].store(true, SeqCst); break; }
                        std::task::Poll::Pending => { if !park(i) { break; } }
                    }
                }
                std::mem::forget(st);
                (got.len() as u64, format!("got {}", got.iter().map(|v| v.to_string()).collect::<Vec<_>>().join(",")))
            }
            // events accepted but not yet yielded by listener 0 (the log's own pending count is a total, not per listener)
            "pending" => { let l = self.sent.load(SeqCst).saturating_sub(self.consumed[0].load(SeqCst)); (l as u64, format!("len {}", l)) }
            "ended" => { let e = self.ended[arg as usize].load(SeqCst); (e as u64, format!("ended {}", e)) }
            _ => panic!("unknown op {}", name),
        }
    }
}

fn make_stream(kind: &str, n: usize) -> Option<Arc<dyn Obj>> {
    // kind = Stream<Chan>{Parked|Fresh}[:MS:NS]
    let mut parts = kind.split(':');
    let head = parts.next().unwrap();
    let ms: usize = parts.next().map(|x| x.parse().unwrap()).unwrap_or(1);
    let ns: usize = parts.next().map(|x| x.parse().unwrap()).unwrap_or(1);
    let parked = head.ends_with("Parked");
    let chan = head.trim_end_matches("Parked").trim_end_matches("Fresh");
    if chan == "StreamMultiMmapLog" {
        return Some(match ms { 1 => Arc::new(StreamMultiMmapLog::<1>::new(ns, parked)) as Arc<dyn Obj>, 2 => Arc::new(StreamMultiMmapLog::<2>::new(ns, parked)), _ => panic!("MAX_STREAMS") });
    }
    macro_rules! inst { ($t:ident) => { match (n, ms) {
        (2, 1) => Arc::new($t::<2, 1>::new(ns, parked)) as Arc<dyn Obj>, (2, 2) => Arc::new($t::<2, 2>::new(ns, parked)),
        (4, 1) => Arc::new($t::<4, 1>::new(ns, parked)), (4, 2) => Arc::new($t::<4, 2>::new(ns, parked)),
        _ => panic!("unsupported (N, MAX_STREAMS) = ({}, {})", n, ms) } } }
    match chan {
        "StreamUniAtomic" => Some(inst!(StreamUniAtomic)),
        "StreamUniFullSync" => Some(inst!(StreamUniFullSync)),
        "StreamMultiArcAtomic" => Some(inst!(StreamMultiArcAtomic)),
        "StreamMultiArcFullSync" => Some(inst!(StreamMultiArcFullSync)),
        _ => None,
    }
}

/// a Multi channel with `NL` listeners (stream ids 0..NL-1); listeners take events through ChannelConsumer::consume(id)
macro_rules! multi_obj {
    ($name:ident, $chan:ident) => {
        struct $name<const N: usize, const MS: usize> { chan: Arc<reactive_mutiny::prelude::advanced::$chan<u32, N, MS>> }
        impl<const N: usize, const MS: usize> $name<N, MS> {
            fn new(nl: usize) -> Self {
                use reactive_mutiny::prelude::*;
                let chan: Arc<reactive_mutiny::prelude::advanced::$chan<u32, N, MS>> = ChannelCommon::new("c");
                for i in 0..nl { let (st, id) = chan.create_stream_for_new_events(); assert_eq!(id as usize, i); std::mem::forget(st); }
                Self { chan }
            }
        }
        impl<const N: usize, const MS: usize> Obj for $name<N, MS> {
            fn op(&self, name: &str, arg: u64, _prev: &[u64]) -> (u64, String) {
                use reactive_mutiny::prelude::*;
                match name {
                    "send" => { let ok = self.chan.send(arg as u32).is_ok(); (ok as u64, format!("ok {}", ok)) }
                    "recv" | "drain" => show_opt(self.chan.consume(arg as u32).map(|a| *a)),
                    _ => panic!("unknown op {}", name),
                }
            }
        }
    };
}
multi_obj!(MultiArcAtomic, ChannelMultiArcAtomic);
multi_obj!(MultiArcFullSync, ChannelMultiArcFullSync);

fn make_multi(kind: &str, n: usize) -> Option<Arc<dyn Obj>> {
    let mut parts = kind.split(':');
    let head = parts.next().unwrap();
    let ms: usize = parts.next().map(|x| x.parse().unwrap()).unwrap_or(2);
    let nl: usize = parts.next().map(|x| x.parse().unwrap()).unwrap_or(1);
    macro_rules! inst { ($t:ident) => { match (n, ms) {
        (2, 2) => Arc::new($t::<2, 2>::new(nl)) as Arc<dyn Obj>, (4, 2) => Arc::new($t::<4, 2>::new(nl)), (4, 4) => Arc::new($t::<4, 4>::new(nl)),
        _ => panic!("unsupported (N, MAX_STREAMS) = ({}, {})", n, ms) } } }
    match head {
        "MultiArcAtomic" => Some(inst!(MultiArcAtomic)),
        "MultiArcFullSync" => Some(inst!(MultiArcFullSync)),
        _ => None,
    }
}

/// the mmap log topic (MMapMeta<u32>): publishers, and listeners that subscribe, poll `kc` times while publishers run, wait for the
/// publishers to return and then drain `kd` times (arg = kc*16 + kd)
struct MmapMetaObj { meta: Arc<reactive_mutiny::ogre_std::ogre_queues::log_topics::mmap_meta::MMapMeta<'static, u32>> }
unsafe impl Send for MmapMetaObj {}
unsafe impl Sync for MmapMetaObj {}
impl MmapMetaObj {
    fn new(cap: usize) -> Self {
        use reactive_mutiny::ogre_std::ogre_queues::meta_topic::MetaTopic;
        static N: AtomicUsize = AtomicUsize::new(0);
        let path = format!("/tmp/rmreplay-{}-{}.mmap", std::process::id(), N.fetch_add(1, SeqCst));
        let meta = reactive_mutiny::ogre_std::ogre_queues::log_topics::mmap_meta::MMapMeta::<u32>::new(path.clone(), cap as u64).expect("mmap log");
        let _ = std::fs::remove_file(&path);
        Self { meta }
    }
}
impl Obj for MmapMetaObj {
    fn op(&self, name: &str, arg: u64, _prev: &[u64]) -> (u64, String) {
        use reactive_mutiny::ogre_std::ogre_queues::meta_subscriber::MetaSubscriber;
        let (kc, kd) = ((arg / 16) as usize, (arg % 16) as usize);
        fn take<'a, S: MetaSubscriber<'a, u32>>(s: &S) -> Option<u32> { s.consume(|slot| *slot, || false, |_| {}) }
        let fmt = |v: &[u32]| v.iter().map(|x| x.to_string()).collect::<Vec<_>>().join(" ");
        match name {
            "send" => { let ok = self.meta.publish_movable(arg as u32).0.is_some(); (ok as u64, format!("ok {}", ok)) }
            "listen_joined" | "listen_newonly" => {
                let sub = if name == "listen_joined" { self.meta.subscribe_to_joined_old_and_new_events() } else { self.meta.subscribe_to_new_events_only() };
                let mut got = vec![];
                for _ in 0..kc { if let Some(v) = take(&sub) { got.push(v); } }
                park(SENDERS_DONE);
                for _ in 0..kd { if let Some(v) = take(&sub) { got.push(v); } }
                let total = self.meta.available_elements_count();
                let start = if name == "listen_joined" { 0 } else { total - got.len().min(total) };
                (got.len() as u64, format!("{} {}", start, fmt(&got)))
            }
            "listen_split" => {
                let (old, new) = self.meta.subscribe_to_separated_old_and_new_events();
                let t = old.remaining_elements_count();
                let (mut newv, mut oldv) = (vec![], vec![]);
                for _ in 0..kc { if let Some(v) = take(&new) { newv.push(v); } }
                park(SENDERS_DONE);
                for _ in 0..kd { if let Some(v) = take(&new) { newv.push(v); } }
                for _ in 0..kd + 1 { if let Some(v) = take(&old) { oldv.push(v); } }
                (t as u64, format!("{} {} | {}", t, fmt(&newv), fmt(&oldv)))
            }
            "final_log" => {
                let sub = self.meta.subscribe_to_joined_old_and_new_events();
                let mut got = vec![];
                while let Some(v) = take(&sub) { got.push(v); }
                (got.len() as u64, fmt(&got))
            }
            _ => panic!("unknown op {}", name),
        }
    }
}

/// payload WITH a destructor that scribbles a marker over its own storage (what engine M's model of `drop_in_place` does):
/// a payload destroyed while / after its slot was handed to somebody else shows up as the marker where an event was expected
#[derive(Debug, Default)]
struct Tracked(u32);
impl Drop for Tracked { fn drop(&mut self) { unsafe { std::ptr::write_volatile(&mut self.0, 0xDEADD00D) } } }
type AllocTA<const N: usize> = OgreArrayPoolAllocator<Tracked, AtomicMove<u32, N>, N>;
type AllocTF<const N: usize> = OgreArrayPoolAllocator<Tracked, FullSyncMove<u32, N>, N>;
macro_rules! zc_drop_obj {
    ($name:ident, $ty:ident, $alloc:ident) => {
        struct $name<const N: usize>($ty<Tracked, $alloc<N>, N>);
        unsafe impl<const N: usize> Send for $name<N> {}
        unsafe impl<const N: usize> Sync for $name<N> {}
        impl<const N: usize> Obj for $name<N> {
            fn op(&self, name: &str, arg: u64, _prev: &[u64]) -> (u64, String) {
                match name {
                    "send" => { let (a, back) = self.0.publish_movable(Tracked(arg as u32)); if let Some(b) = back { std::mem::forget(b); } let ok = a.is_some(); (ok as u64, format!("ok {}", ok)) }
                    "recv" | "drain" => match self.0.consume_leaking() {
                        Some((r, id)) => { let v = unsafe { std::ptr::read_volatile(&r.0) }; self.0.release_leaked_id(id); show_opt(Some(v)) }
                        None => show_opt(None),
                    },
                    _ => panic!("unknown op {}", name),
                }
            }
        }
    };
}
zc_drop_obj!(AtomicZcDrop, AtomicZeroCopy, AllocTA);
zc_drop_obj!(FullSyncZcDrop, FullSyncZeroCopy, AllocTF);

fn make(kind: &str, n: usize) -> Arc<dyn Obj> {
    if kind.starts_with("MmapMeta") { return Arc::new(MmapMetaObj::new(n)); }
    if kind.starts_with("Multi") { return make_multi(kind, n).unwrap_or_else(|| panic!("unknown object kind {}", kind)); }
    if kind.starts_with("Stream") { return make_stream(kind, n).unwrap_or_else(|| panic!("unknown object kind {}", kind)); }
    macro_rules! pick { ($t:ident, $e:expr) => { match n { 2 => Arc::new($t::<2>($e)) as Arc<dyn Obj>, 4 => Arc::new($t::<4>($e)), 8 => Arc::new($t::<8>($e)), _ => panic!("N") } } }
    match kind {
        "AtomicMove" => pick!(AtomicRing, MoveContainer::new()),
        "FullSyncMove" => pick!(FullSyncRing, MoveContainer::new()),
        "AtomicZeroCopy" => pick!(AtomicZc, MetaContainer::new()),
        "AtomicZeroCopyDrop" => pick!(AtomicZcDrop, MetaContainer::new()),
        "FullSyncZeroCopyDrop" => pick!(FullSyncZcDrop, MetaContainer::new()),
        "FullSyncZeroCopy" => pick!(FullSyncZc, MetaContainer::new()),
        "PoolAtomic" => pick!(PoolA, BoundedOgreAllocator::new()),
        "PoolFullSync" => pick!(PoolF, BoundedOgreAllocator::new()),
        "Stack" => pick!(StackObj, OgreStack::new("s".to_string())),
        "UniMoveAtomic" => { use reactive_mutiny::prelude::*; match n { 2 => Arc::new(UniMoveAtomicObj::<2>(ChannelCommon::new("c"))) as Arc<dyn Obj>, 4 => Arc::new(UniMoveAtomicObj::<4>(ChannelCommon::new("c"))), _ => panic!("N") } },
        "Metric" => Arc::new(MetricObj(verif::AtomicIncrementalAverage64::new())) as Arc<dyn Obj>,
        "OgreArcAtomic" => match n { 2 => Arc::new(ArcA::<2>::new()) as Arc<dyn Obj>, 4 => Arc::new(ArcA::<4>::new()), _ => panic!("N") },
        "OgreArcFullSync" => match n { 2 => Arc::new(ArcF::<2>::new()) as Arc<dyn Obj>, 4 => Arc::new(ArcF::<4>::new()), _ => panic!("N") },
        _ => panic!("unknown object kind {}", kind),
    }
}

fn parse_ops(s: &str) -> Vec<(String, String)> {
    s.split_whitespace().map(|t| { let mut p = t.splitn(2, ':'); (p.next().unwrap().to_string(), p.next().unwrap_or("0").to_string()) }).collect()
}

fn main() {
    let mut inp = String::new(); std::io::stdin().read_to_string(&mut inp).unwrap();
    let (mut kind, mut n) = (String::new(), 2usize);
    let mut origins = [0u32; 4]; let mut prefill: Vec<u64> = vec![];
    let mut threads: Vec<Vec<(String, String)>> = vec![]; let mut after: Vec<(String, String)> = vec![];
    let mut segments: Vec<(usize, usize)> = vec![];
    let mut free_rounds: usize = 0;
    for line in inp.lines() {
        let line = line.trim(); if line.is_empty() { continue; }
        let (h, rest) = line.split_once(' ').unwrap_or((line, ""));
        match h {
            "object" => { let mut p = rest.split_whitespace(); kind = p.next().unwrap().into(); n = p.next().unwrap().parse().unwrap(); }
            "origin" => { let v: Vec<u32> = rest.split_whitespace().map(|x| x.parse().unwrap()).collect(); for i in 0..4 { origins[i] = v[i % v.len()]; } }
            "prefill" => prefill = rest.split_whitespace().map(|x| x.parse().unwrap()).collect(),
            "thread" => threads.push(parse_ops(rest)),
            "after" => after = parse_ops(rest),
            "free" => free_rounds = rest.trim().parse().unwrap(),
            "segments" => segments = rest.split_whitespace().map(|x| { let (a, b) = x.split_once(':').unwrap(); (a.parse().unwrap(), b.parse().unwrap()) }).collect(),
            _ => panic!("unknown line {}", line),
        }
    }
    let n_senders = threads.iter().filter(|p| p.first().map(|o| o.0 == "send").unwrap_or(false)).count();
    if free_rounds > 0 {
        // uncontrolled stress replay: the same thread programs on free-running OS threads, a fresh object per round;
        // used when the model schedule needs a switch INSIDE a statement, where no yield hook can sit
        for round in 0..free_rounds {
            verif::set_sequence_origins(origins);
            LIVE_SENDERS.store(n_senders, SeqCst); WOKEN[SENDERS_DONE].store(n_senders == 0, SeqCst);
            let obj = make(&kind, n);
            let pre_op = if kind == "Stack" { "push" } else if kind.starts_with("Pool") { "alloc" } else { "send" };
            if kind.starts_with("OgreArc") { obj.op("create", prefill[0], &[]); for _ in 1..threads.len() { obj.op("handle", 0, &[]); } }
            else { for v in &prefill { obj.op(pre_op, *v, &[]); } }
            // a SPIN barrier: all threads leave it within nanoseconds of each other, which makes the races the model found (windows of a
            // few instructions) likely instead of once-in-a-million; every 3rd round staggers the threads by a few hundred spins
            let barrier = Arc::new(AtomicUsize::new(0)); let nthreads = threads.len();
            let out = Arc::new(Mutex::new(Vec::<String>::new()));
            let mut hs = vec![];
            for (t, prog) in threads.iter().cloned().enumerate() {
                let obj = obj.clone(); let out = out.clone(); let barrier = barrier.clone(); let is_arc = kind.starts_with("OgreArc");
                hs.push(std::thread::spawn(move || {
                    let mut prev: Vec<u64> = vec![]; let mut lines = vec![];
                    barrier.fetch_add(1, SeqCst);
                    while barrier.load(SeqCst) < nthreads { std::hint::spin_loop(); }
                    if round % 3 != 0 { for _ in 0..((round * 37 + t * 101) % 400) { std::hint::spin_loop(); } }
                    for (j, (name, argtxt)) in prog.iter().enumerate() {
                        let arg: u64 = if let Some(k) = argtxt.strip_prefix('r') { prev[k.parse::<usize>().unwrap()] } else if is_arc && name != "alloc" { t as u64 } else { argtxt.parse().unwrap() };
                        let first = CLOCK.fetch_add(1, SeqCst);
                        let r = std::panic::catch_unwind(std::panic::AssertUnwindSafe(|| obj.op(name, arg, &prev)));
                        let last = CLOCK.fetch_add(1, SeqCst);
                        match r {
                            Ok((val, txt)) => { prev.push(val); lines.push(format!("ev {} {} {} {} {} {} {}", t, j, name, arg, first, last, txt)); }
                            Err(_) => { lines.push(format!("panic {} {} panicked", t, j)); break; }
                        }
                    }
                    if prog.first().map(|o| o.0 == "send").unwrap_or(false) && LIVE_SENDERS.fetch_sub(1, SeqCst) == 1 { WOKEN[SENDERS_DONE].store(true, SeqCst); }
                    out.lock().unwrap().extend(lines);
                }));
            }
            for h in hs { let _ = h.join(); }
            let mut prev: Vec<u64> = vec![];
            for (j, (name, argtxt)) in after.iter().enumerate() {
                let arg: u64 = argtxt.parse().unwrap_or(0);
                let first = CLOCK.fetch_add(1, SeqCst);
                let (val, txt) = obj.op(name, arg, &prev); prev.push(val);
                let last = CLOCK.fetch_add(1, SeqCst);
                out.lock().unwrap().push(format!("ev {} {} {} {} {} {} {}", threads.len(), j, name, arg, first, last, txt));
            }
            println!("round {}", round);
            for l in out.lock().unwrap().iter() { println!("{}", l); }
            if kind.starts_with("MmapMeta") { let c = CLOCK.load(SeqCst); println!("ev {} 0 final_log 0 {} {} {}", threads.len(), c, c, obj.op("final_log", 0, &[]).1); }
            if kind.starts_with("Stream") {
                // tasks that stopped polling because nothing woke them (park deadline) and whose waker was not invoked afterwards either
                let ns: usize = kind.split(':').nth(2).map(|x| x.parse().unwrap()).unwrap_or(1);
                let parked: Vec<usize> = (0..ns).filter(|i| obj.op("ended", *i as u64, &[]).0 == 0 && !WOKEN[*i].load(SeqCst)).collect();
                let pending = obj.op("pending", 0, &[]).0;
                let c = CLOCK.load(SeqCst);
                let tasks = parked.iter().map(|t| t.to_string()).collect::<Vec<_>>().join(",");
                println!("ev {} 0 quiescent 0 {} {} {} {} {}", threads.len(), c, c, if parked.is_empty() { "allreturned" } else { "parked" }, pending, if tasks.is_empty() { "-".to_string() } else { tasks });
            }
        }
        return;
    }
    verif::set_sequence_origins(origins);
    LIVE_SENDERS.store(n_senders, SeqCst); WOKEN[SENDERS_DONE].store(n_senders == 0, SeqCst);
    let obj = make(&kind, n);
    let pre_op = if kind == "Stack" { "push" } else if kind.starts_with("Pool") { "alloc" } else { "send" };
    if kind.starts_with("OgreArc") {
        obj.op("create", prefill[0], &[]);
        for _ in 1..threads.len() { obj.op("handle", 0, &[]); }
    } else {
        for v in &prefill { obj.op(pre_op, *v, &[]); }
    }
    if !after.is_empty() { threads.push(after.clone()); }
    let nt = threads.len();
    let after_idx = if after.is_empty() { usize::MAX } else { nt - 1 };
    *SCHED.lock().unwrap() = Some(Sched { turn: None, st: vec![St::NotStarted; nt] });
    verif::set_yield_callback(Some(yield_cb));
    ACTIVE.store(1, SeqCst);
    let out = Arc::new(Mutex::new(Vec::<String>::new()));
    let mut handles = vec![];
    for (t, prog) in threads.iter().cloned().enumerate() {
        let obj = obj.clone(); let out = out.clone(); let is_arc = kind.starts_with("OgreArc");
        handles.push(std::thread::spawn(move || {
            ME.with(|m| m.set(t));
            let mut prev: Vec<u64> = vec![];
            for (j, (name, argtxt)) in prog.iter().enumerate() {
                let arg: u64 = if let Some(k) = argtxt.strip_prefix('r') { prev[k.parse::<usize>().unwrap()] } else if is_arc && name != "alloc" { t as u64 } else { argtxt.parse().unwrap() };
                FIRST.with(|f| f.set(u64::MAX));
                let r = std::panic::catch_unwind(std::panic::AssertUnwindSafe(|| obj.op(name, arg, &prev)));
                let last = CLOCK.load(SeqCst);
                let first = FIRST.with(|f| f.get()); let first = if first == u64::MAX { last } else { first };
                match r {
                    Ok((val, txt)) => { prev.push(val); out.lock().unwrap().push(format!("ev {} {} {} {} {} {} {}", t, j, name, arg, first, last, txt)); }
                    Err(e) => {
                        let msg = e.downcast_ref::<String>().cloned().or_else(|| e.downcast_ref::<&str>().map(|s| s.to_string())).unwrap_or_default();
                        out.lock().unwrap().push(format!("panic {} {} {}", t, j, msg.replace('\n', " "))); break;
                    }
                }
            }
            if prog.first().map(|o| o.0 == "send").unwrap_or(false) && LIVE_SENDERS.fetch_sub(1, SeqCst) == 1 { WOKEN[SENDERS_DONE].store(true, SeqCst); }
            let mut g = SCHED.lock().unwrap(); g.as_mut().unwrap().st[t] = St::Finished; CV.notify_all();
        }));
    }
    // wait until every thread sits at its first yield point (or finished without reaching one)
    { let mut g = SCHED.lock().unwrap(); loop { if g.as_ref().unwrap().st.iter().all(|s| *s == St::AtYield || *s == St::Finished || *s == St::Parked) { break; } g = CV.wait(g).unwrap(); } }
    let quiet = |g: &Sched, t: usize| -> bool { g.st[t] == St::Finished || (g.st[t] == St::Parked && { let k = PARKED_TASK[t].load(SeqCst); k == usize::MAX || !WOKEN[k].load(SeqCst) }) };
    let ordinary_done = |nt: usize| -> bool { let g = SCHED.lock().unwrap(); (0..nt).all(|t| t == after_idx || quiet(g.as_ref().unwrap(), t)) };
    for (t, cnt) in segments { if t >= nt || t == after_idx { continue; } for _ in 0..cnt { if !grant(t) { break; } } }
    let cap = 20000usize; let mut stuck = vec![];
    // run the unfinished ordinary threads to completion, round-robin in bursts so that a thread spinning on another one cannot starve it
    let mut budget = cap;
    while !ordinary_done(nt) && budget > 0 {
        for t in 0..nt { if t == after_idx { continue; } for _ in 0..50 { if budget == 0 || !grant(t) { break; } budget -= 1; } }
    }
    if !ordinary_done(nt) { let g = SCHED.lock().unwrap(); for t in 0..nt { if t != after_idx && !quiet(g.as_ref().unwrap(), t) { stuck.push(t); } } }
    if kind.starts_with("Stream") && stuck.is_empty() {
        // quiescent state: every thread returned or sits parked without a pending wake-up
        let parked: Vec<usize> = { let g = SCHED.lock().unwrap(); (0..nt).filter(|t| g.as_ref().unwrap().st[*t] == St::Parked).map(|t| PARKED_TASK[t].load(SeqCst)).collect() };
        let pending = obj.op("pending", 0, &[]).0;
        let c = CLOCK.load(SeqCst);
        let tasks = parked.iter().map(|t| t.to_string()).collect::<Vec<_>>().join(",");
        println!("ev {} 0 quiescent 0 {} {} {} {} {}", nt, c, c, if parked.is_empty() { "allreturned" } else { "parked" }, pending, if tasks.is_empty() { "-".to_string() } else { tasks });
        for l in out.lock().unwrap().iter() { println!("{}", l); }
        std::process::exit(0);      // parked threads never return: leave without joining
    }
    if stuck.is_empty() && after_idx != usize::MAX { let mut b = cap; while b > 0 && grant(after_idx) { b -= 1; } if b == 0 { stuck.push(after_idx); } }
    for l in out.lock().unwrap().iter() { println!("{}", l); }
    if kind.starts_with("MmapMeta") && stuck.is_empty() { ACTIVE.store(0, SeqCst); let c = CLOCK.load(SeqCst); println!("ev {} 0 final_log 0 {} {} {}", nt, c, c, obj.op("final_log", 0, &[]).1); }
    for t in &stuck { println!("stuck {}", t); }
    if !stuck.is_empty() { std::process::exit(3); }   // threads are still blocked at yield points: leave without joining
    for h in handles { let _ = h.join(); }
}
