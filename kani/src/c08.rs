//! C08 -- reserved slots: sent ones deliver what was written, cancelled vanish, none leak.
//! Solver-chosen scripts over reserve+fill / send-reserved / cancel / plain send / receive on the real containers
//! and channel types, sequence origin = any u32; then every outstanding reservation is resolved, the channel is
//! drained, and exactly BUFFER_SIZE events must be accepted again.
//! (Scripts are macro-unrolled: no harness loops, so the global unwind bound only has to cover the
//! `[0; N].map()` initialisation loops of the containers and one iteration of their spin loops.)

use crate::chans::*;
use crate::common::*;
use crate::rings::set_origins;

/// bookkeeping of the outstanding reservations (a deque over a 4-entry ring) and of the expected deliveries (FIFO model)
pub struct ResState {
    pub rptr: [usize; 4], pub rval: [u32; 4], pub rlo: usize, pub rcnt: usize,
    pub model: ModelFifo,
    pub cancelled_any: bool, pub sent_any: bool, pub refused_any: bool,
}
impl ResState {
    pub fn new(cap: usize) -> Self {
        Self { rptr: [0; 4], rval: [0; 4], rlo: 0, rcnt: 0, model: ModelFifo::new(cap),
               cancelled_any: false, sent_any: false, refused_any: false }
    }
    fn taken(&self) -> usize { self.model.len() + self.rcnt }
}

#[cfg(kani)]
pub fn res_step<C: Chan>(ch: &C, st: &mut ResState) {
    let op: u8 = kani::any();
    kani::assume(op < 6);
    if op == 0 {
        // reserve + fill
        kani::assume(st.rcnt < 4);
        let expect_room = st.taken() < C::CAP;
        let v: u32 = kani::any();
        match ch.reserve_fill(v) {
            Some(p) => {
                assert!(expect_room, "C08: a slot was reserved although BUFFER_SIZE slots were already taken");
                let at = (st.rlo + st.rcnt) % 4;
                st.rptr[at] = p; st.rval[at] = v; st.rcnt += 1;
            }
            None => assert!(!expect_room, "C08: reservation refused although a slot was free (capacity leaked)"),
        }
    } else if op == 1 {
        // send-reserved(oldest): must be accepted
        kani::assume(st.rcnt > 0);
        let r = ch.send_reserved(st.rptr[st.rlo]);
        assert!(r, "C08: try_send_reserved refused the reservation that is next in line (it could never be sent)");
        st.model.push(st.rval[st.rlo]);
        st.rlo = (st.rlo + 1) % 4; st.rcnt -= 1; st.sent_any = true;
    } else if op == 2 {
        // send-reserved(newest) while an older reservation is outstanding: on the movable atomic channel the answer must be
        // `false` (to be retried later); channels without the ordering restriction publish it right away
        kani::assume(st.rcnt > 1);
        let at = (st.rlo + st.rcnt - 1) % 4;
        let r = ch.send_reserved(st.rptr[at]);
        if C::ORDERED_RESERVATIONS {
            assert!(!r, "C08: a reservation was published ahead of an older, still unpublished one");
            st.refused_any = true;
        } else {
            assert!(r, "C08: try_send_reserved refused a filled reservation");
            st.model.push(st.rval[at]); st.rcnt -= 1; st.sent_any = true;
        }
    } else if op == 3 {
        // cancel(newest) -- reverse reservation order, as the movable atomic channel documents
        kani::assume(st.rcnt > 0);
        let at = (st.rlo + st.rcnt - 1) % 4;
        let r = ch.cancel_reserved(st.rptr[at]);
        assert!(r, "C08: try_cancel_slot_reserve refused the most recent reservation");
        st.rcnt -= 1; st.cancelled_any = true;
    } else if op == 4 {
        // plain send -- on the movable atomic channel only while no reservation is outstanding
        kani::assume(!C::ORDERED_RESERVATIONS || st.rcnt == 0);
        let v: u32 = kani::any();
        let expect_room = st.taken() < C::CAP;
        let r = ch.send(v);
        assert!(r == expect_room, "C08: plain send accepted/rejected inconsistently with the reserved + pending slots");
        if r { st.model.push(v); }
    } else {
        let got = ch.recv();
        let want = st.model.pop();
        assert!(got == want, "C08: delivery differs from what was written into the sent slots (cancelled slot delivered, content lost or duplicated)");
    }
}

/// resolves one outstanding reservation (solver decides: send the oldest or cancel the newest)
#[cfg(kani)]
pub fn res_resolve_one<C: Chan>(ch: &C, st: &mut ResState) {
    if st.rcnt == 0 { return; }
    if kani::any() {
        assert!(ch.send_reserved(st.rptr[st.rlo]), "C08: try_send_reserved refused the reservation that is next in line (it could never be sent)");
        st.model.push(st.rval[st.rlo]);
        st.rlo = (st.rlo + 1) % 4; st.rcnt -= 1; st.sent_any = true;
    } else {
        let at = (st.rlo + st.rcnt - 1) % 4;
        assert!(ch.cancel_reserved(st.rptr[at]), "C08: try_cancel_slot_reserve refused the most recent reservation");
        st.rcnt -= 1; st.cancelled_any = true;
    }
}

#[cfg(kani)]
pub fn res_drain_one<C: Chan>(ch: &C, st: &mut ResState) {
    let got = ch.recv();
    let want = st.model.pop();
    assert!(got == want, "C08: delivery differs from what was written into the sent slots (cancelled slot delivered, content lost or duplicated)");
}

#[cfg(kani)]
pub fn res_refill_one<C: Chan>(ch: &C, st: &mut ResState) {
    let v: u32 = kani::any();
    assert!(ch.send(v), "C08: capacity leaked -- fewer than BUFFER_SIZE events accepted after all reservations were resolved");
    st.model.push(v);
}

/// `reservation_script!(ChannelType, CAP, L)` -- CAP and L are literals (the script is unrolled by macro)
macro_rules! reservation_script {
    ($C:ty, $CAP:tt, $L:tt) => {{
        let o: u32 = kani::any();
        set_origins([o, o, o, o]);
        let ch = <$C as Chan>::make();
        let mut st = ResState::new($CAP);
        crate::rep!($L, { res_step::<$C>(&ch, &mut st); });
        crate::rep!($CAP, { res_resolve_one::<$C>(&ch, &mut st); });
        assert!(st.rcnt == 0);
        crate::rep!($CAP, { res_drain_one::<$C>(&ch, &mut st); });
        assert!(st.model.len() == 0);
        assert!(ch.pending() == 0, "C08: channel reports pending items after everything was consumed");
        crate::rep!($CAP, { res_refill_one::<$C>(&ch, &mut st); });
        let extra: u32 = kani::any();
        assert!(!ch.send(extra), "C08: more than BUFFER_SIZE events accepted");
        crate::rep!($CAP, { res_drain_one::<$C>(&ch, &mut st); });
        kani::cover!(st.cancelled_any && st.sent_any, "script both sent and cancelled reservations");
        kani::cover!(o >= u32::MAX - 2 && st.sent_any, "sequence counters crossed 2^32 during the script");
        std::mem::forget(ch);
    }};
}

#[cfg(kani)] #[kani::proof] #[kani::unwind(3)]
#[kani::stub(std::hint::spin_loop, noop_spin)]
fn c08_ring_atomic_n2_l5() { reservation_script!(RingChan<2>, 2, 5) }

#[cfg(kani)] #[kani::proof] #[kani::unwind(5)]
#[kani::stub(std::hint::spin_loop, noop_spin)]
fn c08_ring_atomic_n4_l6() { reservation_script!(RingChan<4>, 4, 6) }

#[cfg(kani)] #[kani::proof] #[kani::unwind(3)]
#[kani::stub(std::hint::spin_loop, noop_spin)]
fn c08_zc_atomic_n2_l5() { reservation_script!(AtomicZcChan<2>, 2, 5) }

#[cfg(kani)] #[kani::proof] #[kani::unwind(3)]
#[kani::stub(std::hint::spin_loop, noop_spin)]
fn c08_zc_full_sync_n2_l5() { reservation_script!(FullSyncZcChan<2>, 2, 5) }

#[cfg(kani)] #[kani::proof] #[kani::unwind(3)]
#[kani::stub(std::hint::spin_loop, noop_spin)]
#[kani::stub(reactive_mutiny::verif::StreamsManagerBase::wake_stream, noop_wake_stream)]
#[kani::stub(<[u32]>::sort_unstable, insertion_sort)]
fn c08_uni_move_atomic_n2_l3() { reservation_script!(UMA<2, 1>, 2, 3) }

#[cfg(kani)] #[kani::proof] #[kani::unwind(3)]
#[kani::stub(std::hint::spin_loop, noop_spin)]
#[kani::stub(reactive_mutiny::verif::StreamsManagerBase::wake_stream, noop_wake_stream)]
#[kani::stub(<[u32]>::sort_unstable, insertion_sort)]
fn c08_uni_zero_copy_atomic_n2_l3() { reservation_script!(UZA<2, 1>, 2, 3) }

#[cfg(kani)] #[kani::proof] #[kani::unwind(3)]
#[kani::stub(std::hint::spin_loop, noop_spin)]
#[kani::stub(reactive_mutiny::verif::StreamsManagerBase::wake_stream, noop_wake_stream)]
#[kani::stub(<[u32]>::sort_unstable, insertion_sort)]
fn c08_uni_zero_copy_full_sync_n2_l3() { reservation_script!(UZF<2, 1>, 2, 3) }
