//! C18 (sequential part) -- the stand-alone stacks and queues against array models; any input, short histories.
use crate::common::*;
use reactive_mutiny::ogre_std::ogre_stacks::{OgreStack, non_blocking_atomic_stack, non_blocking_parking_lot_stack};
use reactive_mutiny::ogre_std::ogre_queues::{OgreQueue, atomic::NonBlockingQueue as AtomicQueue, full_sync::NonBlockingQueue as FullSyncQueue};

pub struct ModelStack { pub items: [u32; 4], pub len: usize, pub cap: usize }
impl ModelStack {
    pub fn push(&mut self, v: u32) -> bool { if self.len >= self.cap { return false; } self.items[self.len] = v; self.len += 1; true }
    pub fn pop(&mut self) -> Option<u32> { if self.len == 0 { return None; } self.len -= 1; Some(self.items[self.len]) }
}
macro_rules! stack_script {
    ($S:ty, $N:tt, $L:tt) => {{
        let s = <$S as OgreStack<u32>>::new(String::new());
        let mut m = ModelStack { items: [0; 4], len: 0, cap: $N };
        let mut full = false; let mut empty = false;
        crate::rep!($L, {
            if kani::any() { let v: u32 = kani::any(); let r = s.push(v); let w = m.push(v); assert!(r == w, "C18: push answer differs from the bounded LIFO model"); if !r { full = true; } }
            else { let r = s.pop(); let w = m.pop(); assert!(r == w, "C18: pop differs from the bounded LIFO model"); if r.is_none() { empty = true; } }
            assert!(s.len() == m.len, "C18: len differs from the model");
        });
        kani::cover!(full && empty, "script hit both full and empty");
        std::mem::forget(s);
    }};
}
#[cfg(kani)] #[kani::proof] #[kani::unwind(3)] #[kani::stub(std::hint::spin_loop, noop_spin)]
fn c18_atomic_stack_n2_l6() { stack_script!(non_blocking_atomic_stack::Stack<u32, 2, false, false>, 2, 6) }
// (a harness on non_blocking_parking_lot_stack::Stack was removed: Kani 0.68 crashes with an internal compiler error -- kani-compiler/src/intrinsics.rs:243 -- when parking_lot::RawMutex is reachable)

macro_rules! queue_script {
    ($Q:ty, $N:tt, $L:tt) => {{
        let q = <$Q as OgreQueue<u32>>::new("");
        let mut m = ModelFifo::new($N);
        let mut full = false; let mut empty = false;
        crate::rep!($L, {
            if kani::any() { let v: u32 = kani::any(); let r = q.enqueue(v).is_none(); let w = m.push(v); assert!(r == w, "C18: enqueue answer differs from the bounded FIFO model"); if !r { full = true; } }
            else { let r = q.dequeue(); let w = m.pop(); assert!(r == w, "C18: dequeue differs from the bounded FIFO model"); if r.is_none() { empty = true; } }
        });
        kani::cover!(full && empty, "script hit both full and empty");
        std::mem::forget(q);
    }};
}
#[cfg(kani)] #[kani::proof] #[kani::unwind(4)] #[kani::stub(std::hint::spin_loop, noop_spin)]
fn c18_atomic_queue_n2_l5() { queue_script!(AtomicQueue<u32, 2, 0>, 2, 5) }
#[cfg(kani)] #[kani::proof] #[kani::unwind(4)] #[kani::stub(std::hint::spin_loop, noop_spin)]
fn c18_full_sync_queue_n2_l5() { queue_script!(FullSyncQueue<u32, 2, 0>, 2, 5) }
