//! Uniform access to the real channel types (through their public traits) so that one script engine drives all of them.
//! Delivery-only oracles drain Uni channels through `ChannelConsumer::consume()` (no stream needed); harnesses that
//! use these wrappers stub `StreamsManagerBase::wake_stream` (waking cannot change what `consume()` returns).

use reactive_mutiny::prelude::advanced::*;
use reactive_mutiny::prelude::*;
use reactive_mutiny::verif::StreamsManagerBase;
use std::sync::Arc;

/// Kani stub for `StreamsManagerBase::wake_stream` (the generic parameter must be NAMED as in the original)
pub fn noop_wake_stream<const MAX_STREAMS: usize>(_s: &StreamsManagerBase<MAX_STREAMS>, _stream_id: u32) {}

pub trait Chan {
    const CAP: usize;
    /// reservations must be published in reservation order and cancelled in reverse order (movable atomic channel)
    const ORDERED_RESERVATIONS: bool;
    const HAS_RESERVATIONS: bool;
    fn make() -> Arc<Self>;
    fn send(&self, v: u32) -> bool;
    fn send_with(&self, v: u32) -> bool;
    fn recv(&self) -> Option<u32>;
    fn pending(&self) -> u32;
    /// reserves a slot and writes `v` into it; answers a token identifying the reservation
    /// (the slot's address for channels; the slot's ring index for the raw ring, which avoids symbolic pointers)
    fn reserve_fill(&self, _v: u32) -> Option<usize> { None }
    fn send_reserved(&self, _token: usize) -> bool { false }
    fn cancel_reserved(&self, _token: usize) -> bool { false }
}

pub static mut SETTER_CALLS: u32 = 0;

macro_rules! uni_send_impl {
    () => {
        fn send(&self, v: u32) -> bool {
            match ChannelProducer::send(self, v) {
                keen_retry::RetryResult::Ok { .. } => true,
                keen_retry::RetryResult::Transient { input, .. } => { assert!(input == v, "C01: a rejected payload must be handed back unchanged"); false }
                keen_retry::RetryResult::Fatal { .. } => { assert!(false, "send answered Fatal"); false }
            }
        }
        fn send_with(&self, v: u32) -> bool {
            let before = unsafe { SETTER_CALLS };
            match ChannelProducer::send_with(self, |slot: &mut u32| { *slot = v; unsafe { SETTER_CALLS += 1; } }) {
                keen_retry::RetryResult::Ok { .. } => { assert!(unsafe { SETTER_CALLS } == before + 1, "C01: an accepted setter runs exactly once"); true }
                keen_retry::RetryResult::Transient { .. } => { assert!(unsafe { SETTER_CALLS } == before, "C01: a rejected setter must be handed back un-invoked"); false }
                keen_retry::RetryResult::Fatal { .. } => { assert!(false, "send_with answered Fatal"); false }
            }
        }
        fn pending(&self) -> u32 { self.pending_items_count() }
    };
}

macro_rules! reserve_impl {
    () => {
        fn reserve_fill(&self, v: u32) -> Option<usize> { self.reserve_slot().map(|r| { *r = v; r as *mut u32 as usize }) }
        fn send_reserved(&self, token: usize) -> bool { self.try_send_reserved(unsafe { &mut *(token as *mut u32) }) }
        fn cancel_reserved(&self, token: usize) -> bool { self.try_cancel_slot_reserve(unsafe { &mut *(token as *mut u32) }) }
    };
}

pub type UMA<const N: usize, const MS: usize> = ChannelUniMoveAtomic<u32, N, MS>;
pub type UMF<const N: usize, const MS: usize> = ChannelUniMoveFullSync<u32, N, MS>;
pub type UMC<const N: usize, const MS: usize> = ChannelUniMoveCrossbeam<u32, N, MS>;
pub type UZA<const N: usize, const MS: usize> = ChannelUniZeroCopyAtomic<u32, N, MS>;
pub type UZF<const N: usize, const MS: usize> = ChannelUniZeroCopyFullSync<u32, N, MS>;

impl<const N: usize, const MS: usize> Chan for UMA<N, MS> {
    const CAP: usize = N; const ORDERED_RESERVATIONS: bool = true; const HAS_RESERVATIONS: bool = true;
    fn make() -> Arc<Self> { Self::new("c") }
    uni_send_impl!();
    reserve_impl!();
    fn recv(&self) -> Option<u32> { self.consume(0) }
}
impl<const N: usize, const MS: usize> Chan for UMF<N, MS> {
    const CAP: usize = N; const ORDERED_RESERVATIONS: bool = false; const HAS_RESERVATIONS: bool = false;
    fn make() -> Arc<Self> { Self::new("c") }
    uni_send_impl!();
    fn recv(&self) -> Option<u32> { self.consume(0) }
}
impl<const N: usize, const MS: usize> Chan for UMC<N, MS> {
    const CAP: usize = N; const ORDERED_RESERVATIONS: bool = false; const HAS_RESERVATIONS: bool = false;
    fn make() -> Arc<Self> { Self::new("c") }
    uni_send_impl!();
    fn recv(&self) -> Option<u32> { self.consume(0) }
}
impl<const N: usize, const MS: usize> Chan for UZA<N, MS> {
    const CAP: usize = N; const ORDERED_RESERVATIONS: bool = false; const HAS_RESERVATIONS: bool = true;
    fn make() -> Arc<Self> { Self::new("c") }
    uni_send_impl!();
    reserve_impl!();
    fn recv(&self) -> Option<u32> { self.consume(0).map(|h| { let v = *h; drop(h); v }) }
}
impl<const N: usize, const MS: usize> Chan for UZF<N, MS> {
    const CAP: usize = N; const ORDERED_RESERVATIONS: bool = false; const HAS_RESERVATIONS: bool = true;
    fn make() -> Arc<Self> { Self::new("c") }
    uni_send_impl!();
    reserve_impl!();
    fn recv(&self) -> Option<u32> { self.consume(0).map(|h| { let v = *h; drop(h); v }) }
}

// ---- the raw ring buffer and the zero-copy wrappers seen through the same interface (container level: seconds per harness) ----
use reactive_mutiny::ogre_std::ogre_queues::{
    atomic::atomic_move::AtomicMove,
    meta_container::{MoveContainer, MetaContainer},
    meta_publisher::{MovePublisher, MetaPublisher},
    meta_subscriber::{MoveSubscriber, MetaSubscriber},
};
use crate::rings::{AZ, FZ};

/// `AtomicMove<u32, N>` driven exactly the way `uni::channels::movable::atomic::Atomic` drives it
pub struct RingChan<const N: usize>(pub AtomicMove<u32, N>);
impl<const N: usize> Chan for RingChan<N> {
    const CAP: usize = N; const ORDERED_RESERVATIONS: bool = true; const HAS_RESERVATIONS: bool = true;
    fn make() -> Arc<Self> { Arc::new(RingChan(<AtomicMove<u32, N> as MoveContainer<u32>>::new())) }
    fn send(&self, v: u32) -> bool {
        match self.0.publish_movable(v) {
            (Some(_), None) => true,
            (None, Some(b)) => { assert!(b == v, "C01: a rejected payload must be handed back unchanged"); false }
            _ => { assert!(false, "publish_movable answered neither accepted nor rejected"); false }
        }
    }
    fn send_with(&self, v: u32) -> bool {
        let before = unsafe { SETTER_CALLS };
        match self.0.publish(|slot: &mut u32| { *slot = v; unsafe { SETTER_CALLS += 1; } }, || false, |_| {}) {
            None => { assert!(unsafe { SETTER_CALLS } == before + 1, "C01: an accepted setter runs exactly once"); true }
            Some(_) => { assert!(unsafe { SETTER_CALLS } == before, "C01: a rejected setter must be handed back un-invoked"); false }
        }
    }
    fn recv(&self) -> Option<u32> { self.0.consume_movable() }
    fn pending(&self) -> u32 { self.0.available_elements_count() as u32 }
    fn reserve_fill(&self, v: u32) -> Option<usize> {
        self.0.leak_slot_internal(|| false).map(|(r, _id, _len)| { *r = v; self.0.slot_index_from_slot_ref(r) as usize })
    }
    fn send_reserved(&self, token: usize) -> bool { self.0.try_publish_leaked_internal_index(token as u32).is_some() }
    fn cancel_reserved(&self, token: usize) -> bool { self.0.try_unleak_slot_index_internal(token as u32) }
}

/// `FullSyncMove<u32, N>` through the MovePublisher / MoveSubscriber API (no reservation API on the full-sync movable channel)
pub struct FullSyncRingChan<const N: usize>(pub reactive_mutiny::ogre_std::ogre_queues::full_sync::full_sync_move::FullSyncMove<u32, N>);
impl<const N: usize> Chan for FullSyncRingChan<N> {
    const CAP: usize = N; const ORDERED_RESERVATIONS: bool = false; const HAS_RESERVATIONS: bool = false;
    fn make() -> Arc<Self> { Arc::new(FullSyncRingChan(MoveContainer::new())) }
    fn send(&self, v: u32) -> bool {
        match self.0.publish_movable(v) {
            (Some(_), None) => true,
            (None, Some(b)) => { assert!(b == v, "C01: a rejected payload must be handed back unchanged"); false }
            _ => { assert!(false, "publish_movable answered neither accepted nor rejected"); false }
        }
    }
    fn send_with(&self, v: u32) -> bool {
        let before = unsafe { SETTER_CALLS };
        match self.0.publish(|slot: &mut u32| { *slot = v; unsafe { SETTER_CALLS += 1; } }, || false, |_| {}) {
            None => { assert!(unsafe { SETTER_CALLS } == before + 1, "C01: an accepted setter runs exactly once"); true }
            Some(_) => { assert!(unsafe { SETTER_CALLS } == before, "C01: a rejected setter must be handed back un-invoked"); false }
        }
    }
    fn recv(&self) -> Option<u32> { self.0.consume_movable() }
    fn pending(&self) -> u32 { self.0.available_elements_count() as u32 }
}

macro_rules! zc_chan {
    ($name:ident, $ty:ident) => {
        /// zero-copy wrapper driven exactly the way the zero-copy Uni channels drive it
        pub struct $name<const N: usize>(pub $ty<N>);
        impl<const N: usize> Chan for $name<N> {
            const CAP: usize = N; const ORDERED_RESERVATIONS: bool = false; const HAS_RESERVATIONS: bool = true;
            fn make() -> Arc<Self> { Arc::new($name(<$ty<N> as MetaContainer<u32>>::new())) }
            fn send(&self, v: u32) -> bool {
                match self.0.publish_movable(v) {
                    (Some(_), None) => true,
                    (None, Some(b)) => { assert!(b == v, "C01: a rejected payload must be handed back unchanged"); false }
                    _ => { assert!(false, "publish_movable answered neither accepted nor rejected"); false }
                }
            }
            fn send_with(&self, v: u32) -> bool {
                let before = unsafe { SETTER_CALLS };
                match self.0.publish(|slot: &mut u32| { *slot = v; unsafe { SETTER_CALLS += 1; } }) {
                    (Some(_), None) => { assert!(unsafe { SETTER_CALLS } == before + 1, "C01: an accepted setter runs exactly once"); true }
                    (None, Some(_)) => { assert!(unsafe { SETTER_CALLS } == before, "C01: a rejected setter must be handed back un-invoked"); false }
                    _ => { assert!(false, "publish answered neither accepted nor rejected"); false }
                }
            }
            fn recv(&self) -> Option<u32> {
                match self.0.consume_leaking() { Some((r, id)) => { let v = *r; self.0.release_leaked_id(id); Some(v) } None => None }
            }
            fn pending(&self) -> u32 { self.0.available_elements_count() as u32 }
            fn reserve_fill(&self, v: u32) -> Option<usize> { self.0.leak_slot().map(|(r, id)| { *r = v; id as usize }) }
            fn send_reserved(&self, token: usize) -> bool { self.0.publish_leaked_id(token as u32).is_some() }
            fn cancel_reserved(&self, token: usize) -> bool { self.0.release_leaked_id(token as u32); true }
        }
    };
}
zc_chan!(AtomicZcChan, AZ);
zc_chan!(FullSyncZcChan, FZ);
