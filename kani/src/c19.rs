//! C19 (numeric part) -- the incremental average equals the arithmetic mean within tolerance, sequentially, REAL f32 semantics (CBMC).
use reactive_mutiny::verif::AtomicIncrementalAverage64;

#[cfg(kani)]
fn finite_measurement() -> f32 {
    let x: f32 = kani::any();
    kani::assume(x >= -1000.0 && x <= 1000.0);
    x
}
#[cfg(kani)] #[kani::proof] #[kani::unwind(3)]
fn c19_mean_of_two() {
    let m = AtomicIncrementalAverage64::new();
    let a = finite_measurement(); let b = finite_measurement();
    m.inc(a);
    let (c1, v1) = m.probe();
    assert!(c1 == 1 && v1 == a, "C19: after one measurement the pair must be (1, measurement)");
    m.inc(b);
    let (c2, v2) = m.probe();
    assert!(c2 == 2, "C19: count must equal the number of recorded measurements");
    let mean = (a + b) / 2.0;
    let tol = 1e-3_f32 * (if mean.abs() > 1.0 { mean.abs() } else { 1.0 });
    assert!((v2 - mean).abs() <= tol, "C19: average differs from the arithmetic mean by more than the tolerance");
    kani::cover!(a == -1.0 && b > 0.0, "the -1.0 'no timing' sentinel mixed with a positive measurement");
    kani::cover!(a < 0.0 && b < 0.0, "two negative measurements");
}
