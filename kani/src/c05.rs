//! C05 (history part) -- payloads with a destructor: destroyed at most once, exactly once when delivered and released, never while
//! held; teardown with events still buffered destroys the leftovers exactly once and touches nothing freed (CBMC's pointer checks:
//! "dead object" / double free). Movable rings hold the payload itself; the zero-copy wrapper holds it in the pool.

use crate::common::*;
use crate::rings::set_origins;
use reactive_mutiny::ogre_std::ogre_queues::{
    atomic::atomic_move::AtomicMove, full_sync::full_sync_move::FullSyncMove,
    meta_container::MoveContainer, meta_publisher::MovePublisher, meta_subscriber::MoveSubscriber,
};

pub static mut DROPS: [u32; 8] = [0; 8];
#[derive(Debug, Default)]
pub struct Tracked { pub id: u32 }
impl Drop for Tracked { fn drop(&mut self) { if self.id > 0 && self.id < 8 { unsafe { DROPS[self.id as usize] += 1; } } } }

/// L steps of send(next id) / receive-and-drop / receive-and-hold on a movable ring, then the ring is DROPPED with whatever is left
macro_rules! teardown_script {
    ($Q:ty, $N:tt, $L:tt) => {{
        let o: u32 = kani::any(); set_origins([o, o, o, o]);
        let q = <$Q as MoveContainer<Tracked>>::new();
        let mut next: u32 = 1; let mut accepted = [false; 8]; let mut released = [false; 8];
        let mut held: Option<Tracked> = None;
        crate::rep!($L, {
            let op: u8 = kani::any(); kani::assume(op < 3);
            if op == 0 {
                let (len, back) = q.publish_movable(Tracked { id: next });
                if len.is_some() { accepted[next as usize] = true; } else { std::mem::forget(back); }
                next += 1;
            } else if op == 1 {
                if let Some(t) = q.consume_movable() {
                    assert!(accepted[t.id as usize] && !released[t.id as usize], "C05: received a payload that was not accepted or was already released");
                    assert!(unsafe { DROPS[t.id as usize] } == 0, "C05: payload destroyed before its consumer released it");
                    released[t.id as usize] = true; drop(t);
                }
            } else {
                if held.is_none() {
                    if let Some(t) = q.consume_movable() { assert!(unsafe { DROPS[t.id as usize] } == 0, "C05: payload destroyed while a consumer holds it"); released[t.id as usize] = true; held = Some(t); }
                }
            }
        });
        if let Some(t) = &held { assert!(unsafe { DROPS[t.id as usize] } == 0, "C05: payload destroyed while a consumer holds it"); }
        let leftovers = q.available_elements_count();
        drop(q);                       // teardown with `leftovers` events still buffered
        drop(held);
        let mut i = 1;
        while i < 8 {
            let want = if accepted[i] { 1 } else { 0 };
            assert!(unsafe { DROPS[i] } == want, "C05: every accepted payload must be destroyed exactly once (delivered ones at release, buffered ones at teardown), rejected ones never by the channel");
            i += 1;
        }
        kani::cover!(leftovers > 0, "teardown with events still buffered");
        kani::cover!(leftovers == 0 && next > 2, "teardown of a drained queue");
    }};
}
#[cfg(kani)] #[kani::proof] #[kani::unwind(9)] #[kani::stub(std::hint::spin_loop, noop_spin)]
fn c05_ring_atomic_teardown_n2_l4() { teardown_script!(AtomicMove<Tracked, 2>, 2, 4) }
#[cfg(kani)] #[kani::proof] #[kani::unwind(9)] #[kani::stub(std::hint::spin_loop, noop_spin)]
fn c05_ring_full_sync_teardown_n2_l4() { teardown_script!(FullSyncMove<Tracked, 2>, 2, 4) }
