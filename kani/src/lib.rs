//! Kani proof harnesses over the real `reactive-mutiny` crate (path dependency on /repo, feature `verif`).
//! One module per property; `common` holds the reference models, stubs and the abstract waker.
//! The same code compiles natively (cfg(not(kani))) so that counterexamples can be replayed.
#![allow(static_mut_refs)]
#![allow(dead_code)]
#![allow(unused_imports)]
#![allow(clippy::all)]

pub mod common;
pub mod rings;
pub mod c15;
pub mod chans;
pub mod c08;
pub mod c01;
pub mod c13;
pub mod c14;
pub mod c05;
pub mod c18;
pub mod c19;
pub mod c10;
pub mod c03;
