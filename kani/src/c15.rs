//! C15 -- behaviour is independent of how many events flowed before (counter wrap-around).
//! Differential: instance A starts at sequence origin 0, instance B at ANY u32 origin (one solver
//! variable covers the whole range, including every placement of the 2^32 wrap inside the script);
//! both run the same solver-chosen script; every answer must be identical and nothing may panic.

use crate::rings::*;
use crate::common::*;

/// L solver-chosen operations (send(v) / recv / len) on two instances of `Q`
#[cfg(kani)]
fn differential_script<Q: Fifo, const L: usize>() {
    set_origins([0; 4]);
    let a = Q::make();
    let o: u32 = kani::any();
    set_origins([o, o, o, o]);
    let b = Q::make();
    let mut wrapped = false;
    let mut rejected = false;
    let mut step = 0;
    while step < L {
        let op: u8 = kani::any();
        kani::assume(op < 3);
        if op == 0 {
            let v: u32 = kani::any();
            let ra = a.send(v);
            let rb = b.send(v);
            assert!(ra == rb, "C15: accept/reject answer differs from a fresh instance");
            if !ra { rejected = true; }
        } else if op == 1 {
            let ra = a.recv();
            let rb = b.recv();
            assert!(ra == rb, "C15: received value differs from a fresh instance");
        } else {
            assert!(a.len() == b.len(), "C15: reported length differs from a fresh instance");
        }
        step += 1;
    }
    // drain both: the leftovers must agree as well
    let mut n = 0;
    while n < Q::CAP {
        let ra = a.recv();
        let rb = b.recv();
        assert!(ra == rb, "C15: drained value differs from a fresh instance");
        n += 1;
    }
    if o > u32::MAX - (L as u32) { wrapped = true; }
    kani::cover!(wrapped && rejected, "origin close enough to 2^32 for the script to cross the wrap, and a send was rejected");
    kani::cover!(o == u32::MAX, "origin == u32::MAX");
    std::mem::forget(a);
    std::mem::forget(b);
}

#[cfg(kani)] #[kani::proof] #[kani::unwind(7)]
fn c15_atomic_move_n2_l5() { differential_script::<AM<2>, 5>(); }

#[cfg(kani)] #[kani::proof] #[kani::unwind(7)]
fn c15_full_sync_move_n2_l5() { differential_script::<FM<2>, 5>(); }
