//! C03 (sequential part, on the fully compiled code): every listener of a Multi channel yields every accepted event once, in
//! order, and all listeners observe the very same shared allocation (std Arc / OgreArc) -- the clause engine M cannot see,
//! because it carries `Arc` as its content. Schedules are engine M's part (queries c03_*).

use crate::chans::noop_wake_stream;
use crate::common::*;
use crate::rings::set_origins;
use reactive_mutiny::prelude::advanced::*;
use reactive_mutiny::prelude::*;
use std::sync::Arc;

/// two listeners (created up front), one send (any u32 value; BUFFER_SIZE 2: sequences shorter than the buffer), each listener takes it
macro_rules! same_allocation_script {
    ($C:ty, $same:expr) => {{
        set_origins([0, 0, 0, 0]);
        let ch: Arc<$C> = <$C>::new("c");
        let (sa, ida) = ch.create_stream_for_new_events();
        let (sb, idb) = ch.create_stream_for_new_events();
        assert!(ida != idb, "C03: two listeners share a stream id");
        let v1: u32 = kani::any();
        assert!(ch.send(v1).is_ok(), "C03: a send below the buffer size was not accepted");
        let a1 = ch.consume(ida).expect("C03: listener A misses the event");
        let b1 = ch.consume(idb).expect("C03: listener B misses the event");
        assert!(*a1 == v1 && *b1 == v1, "C03: a listener yields a payload that differs from what was sent");
        assert!($same(&a1, &b1), "C03: the listeners observe different allocations of the same event");
        assert!(ch.consume(ida).is_none() && ch.consume(idb).is_none(), "C03: a listener yields an event that was never sent");
        kani::cover!(v1 == 7, "the whole script is executable");
        std::mem::forget((a1, b1)); std::mem::forget(sa); std::mem::forget(sb); std::mem::forget(ch);
    }};
}

macro_rules! same_allocation_harness {
    ($name:ident, $C:ty, $same:expr) => {
        #[cfg(kani)] #[kani::proof] #[kani::unwind(4)]
        #[kani::stub(std::hint::spin_loop, noop_spin)]
        #[kani::stub(reactive_mutiny::verif::StreamsManagerBase::wake_stream, noop_wake_stream)]
        #[kani::stub(<[u32]>::sort_unstable, insertion_sort)]
        #[kani::stub(<std::task::Waker as std::ops::Drop>::drop, stub_waker_drop)]
        fn $name() { same_allocation_script!($C, $same) }
    };
}
fn arc_same(a: &Arc<u32>, b: &Arc<u32>) -> bool { Arc::ptr_eq(a, b) }
same_allocation_harness!(c03_same_allocation_arc_atomic, ChannelMultiArcAtomic<u32, 2, 2>, arc_same);
same_allocation_harness!(c03_same_allocation_arc_full_sync, ChannelMultiArcFullSync<u32, 2, 2>, arc_same);
same_allocation_harness!(c03_same_allocation_arc_crossbeam, ChannelMultiArcCrossbeam<u32, 2, 2>, arc_same);
fn ogre_same_a(a: &OgreArc<u32, AllocatorAtomicArray<u32, 2>>, b: &OgreArc<u32, AllocatorAtomicArray<u32, 2>>) -> bool { (&**a as *const u32) == (&**b as *const u32) }
fn ogre_same_f(a: &OgreArc<u32, AllocatorFullSyncArray<u32, 2>>, b: &OgreArc<u32, AllocatorFullSyncArray<u32, 2>>) -> bool { (&**a as *const u32) == (&**b as *const u32) }
same_allocation_harness!(c03_same_allocation_ogre_arc_atomic, ChannelMultiOgreArcAtomic<u32, 2, 2>, ogre_same_a);
same_allocation_harness!(c03_same_allocation_ogre_arc_full_sync, ChannelMultiOgreArcFullSync<u32, 2, 2>, ogre_same_f);
