//! C14 (history part) -- OgreArc / OgreUnique as shared / unique owners of one pooled value with a destructor.
//! Solver-chosen scripts over clone / drop / bulk increment + raw copy / dereference; creation through new_with_clones::<2>,
//! OgreUnique::new + into_ogre_arc; at the end the pool must hand out POOL_SIZE slots again and the destructor must have run
//! exactly once. (Concurrent clone/drop: engine M.)

use crate::common::*;
use crate::rings::set_origins;
use reactive_mutiny::ogre_std::ogre_alloc::{BoundedOgreAllocator, ogre_arc::OgreArc, ogre_unique::OgreUnique, ogre_array_pool_allocator::OgreArrayPoolAllocator};
use reactive_mutiny::ogre_std::ogre_queues::atomic::atomic_move::AtomicMove;

pub static mut DROPS: u32 = 0;
#[derive(Debug)]
pub struct Payload { pub v: u32 }
impl Drop for Payload { fn drop(&mut self) { unsafe { DROPS += 1; } } }
type Alloc = OgreArrayPoolAllocator<Payload, AtomicMove<u32, 2>, 2>;
type Arc_ = OgreArc<Payload, Alloc>;

pub struct ArcState { pub h: [Option<Arc_>; 4], pub live: u32, pub v: u32 }

#[cfg(kani)]
fn arc_step(st: &mut ArcState) {
    let op: u8 = kani::any(); kani::assume(op < 4);
    let k: usize = kani::any(); kani::assume(k < 4);
    if op == 0 {            // clone handle k into a free place
        kani::assume(st.h[k].is_some());
        let f: usize = kani::any(); kani::assume(f < 4 && st.h[f].is_none());
        let c = st.h[k].as_ref().unwrap().clone();
        st.h[f] = Some(c); st.live += 1;
    } else if op == 1 {     // drop handle k
        kani::assume(st.h[k].is_some());
        let before = unsafe { DROPS };
        let h = st.h[k].take(); drop(h); st.live -= 1;
        let after = unsafe { DROPS };
        assert!(after == before + if st.live == 0 { 1 } else { 0 }, "C14: the value must be destroyed exactly when the last handle is dropped");
    } else if op == 2 {     // bulk increment + raw copy
        kani::assume(st.h[k].is_some());
        let f: usize = kani::any(); kani::assume(f < 4 && st.h[f].is_none());
        let c = unsafe { st.h[k].as_ref().unwrap().increment_references(1).raw_copy() };
        st.h[f] = Some(c); st.live += 1;
    } else {                // dereference + count
        kani::assume(st.h[k].is_some());
        let h = st.h[k].as_ref().unwrap();
        assert!(h.v == st.v, "C14: a live handle must dereference to the value written at creation");
        assert!(h.references_count() == st.live, "C14: reference count != number of live handles");
    }
}

#[cfg(kani)]
fn arc_finish(a: &Alloc, st: &mut ArcState) {
    let mut dropped_now = 0;
    crate::rep!(4, { let k: usize = 3 - dropped_now; if st.h[k].is_some() { let h = st.h[k].take(); drop(h); st.live -= 1; } dropped_now += 1; });
    assert!(st.live == 0);
    assert!(unsafe { DROPS } == 1, "C14: the value's destructor must run exactly once");
    assert!(a.alloc_ref().is_some() && a.alloc_ref().is_some(), "C14: the slot was not returned to the pool");
    assert!(a.alloc_ref().is_none(), "C14: the slot was returned to the pool more than once");
}

#[cfg(kani)] #[kani::proof] #[kani::unwind(4)] #[kani::stub(std::hint::spin_loop, noop_spin)]
fn c14_new_with_clones_script_l4() {
    let o: u32 = kani::any(); set_origins([o, o, o, o]);
    let a: &'static Alloc = Box::leak(Box::new(Alloc::new()));
    let v: u32 = kani::any();
    let [h0, h1] = Arc_::new_with_clones::<2, _>(|slot| unsafe { std::ptr::write(slot, Payload { v }) }, a).unwrap();
    let mut st = ArcState { h: [Some(h0), Some(h1), None, None], live: 2, v };
    crate::rep!(4, { arc_step(&mut st); });
    kani::cover!(st.live == 4, "four live handles");
    kani::cover!(st.live == 0, "all handles dropped inside the script");
    arc_finish(a, &mut st);
    std::mem::forget(st);      // (all places are None now; skips the drop-glue loop over the array)
}

#[cfg(kani)] #[kani::proof] #[kani::unwind(4)] #[kani::stub(std::hint::spin_loop, noop_spin)]
fn c14_unique_into_arc_script_l3() {
    let o: u32 = kani::any(); set_origins([o, o, o, o]);
    let a: &'static Alloc = Box::leak(Box::new(Alloc::new()));
    let v: u32 = kani::any();
    let u = OgreUnique::new(|slot| unsafe { std::ptr::write(slot, Payload { v }) }, a).unwrap();
    assert!(u.v == v, "C14: OgreUnique must dereference to the value written at creation");
    let convert: bool = kani::any();
    if convert {
        let h = u.into_ogre_arc();
        assert!(unsafe { DROPS } == 0, "C14: into_ogre_arc must not destroy the value");
        assert!(h.v == v && h.references_count() == 1, "C14: into_ogre_arc must keep the value and yield one handle");
        let mut st = ArcState { h: [Some(h), None, None, None], live: 1, v };
        crate::rep!(3, { arc_step(&mut st); });
        arc_finish(a, &mut st);
        std::mem::forget(st);
    } else {
        drop(u);
        assert!(unsafe { DROPS } == 1, "C14: dropping the unique handle destroys the value exactly once");
        assert!(a.alloc_ref().is_some() && a.alloc_ref().is_some() && a.alloc_ref().is_none(), "C14: slot not returned exactly once");
    }
    kani::cover!(convert, "converted into a shared handle");
    kani::cover!(!convert, "dropped as unique handle");
}
