//! Uniform access to the bounded FIFO containers of `ogre_std` so that one script engine can drive all of them

use reactive_mutiny::ogre_std::ogre_queues::{
    atomic::{atomic_move::AtomicMove, atomic_zero_copy::AtomicZeroCopy},
    full_sync::{full_sync_move::FullSyncMove, full_sync_zero_copy::FullSyncZeroCopy},
    meta_container::{MoveContainer, MetaContainer},
    meta_publisher::{MovePublisher, MetaPublisher},
    meta_subscriber::{MoveSubscriber, MetaSubscriber},
};
use reactive_mutiny::ogre_std::ogre_alloc::ogre_array_pool_allocator::OgreArrayPoolAllocator;
use reactive_mutiny::verif;

/// Sets the origins of the next ring buffers to be created (see `reactive_mutiny::verif::sequence_origin()`)
pub fn set_origins(o: [u32; 4]) { verif::set_sequence_origins(o); }

pub trait Fifo {
    const CAP: usize;
    /// creates an instance whose ring buffers start at the origins previously given to [set_origins()]
    fn make() -> Self;
    fn send(&self, v: u32) -> bool;
    fn recv(&self) -> Option<u32>;
    fn len(&self) -> usize;
}

pub type AM<const N: usize> = AtomicMove<u32, N>;
pub type FM<const N: usize> = FullSyncMove<u32, N>;
pub type AllocA<const N: usize> = OgreArrayPoolAllocator<u32, AtomicMove<u32, N>, N>;
pub type AllocF<const N: usize> = OgreArrayPoolAllocator<u32, FullSyncMove<u32, N>, N>;
pub type AZ<const N: usize> = AtomicZeroCopy<u32, AllocA<N>, N>;
pub type FZ<const N: usize> = FullSyncZeroCopy<u32, AllocF<N>, N>;

impl<const N: usize> Fifo for AM<N> {
    const CAP: usize = N;
    fn make() -> Self { <Self as MoveContainer<u32>>::new() }
    fn send(&self, v: u32) -> bool {
        let (len, back) = self.publish_movable(v);
        match (len, back) {
            (Some(_), None) => true,
            (None, Some(b)) => { assert!(b == v, "C01: a rejected payload must be handed back unchanged"); false }
            _ => { assert!(false, "C01: publish_movable answered neither accepted nor rejected"); false }
        }
    }
    fn recv(&self) -> Option<u32> { self.consume_movable() }
    fn len(&self) -> usize { self.available_elements_count() }
}

impl<const N: usize> Fifo for FM<N> {
    const CAP: usize = N;
    fn make() -> Self { <Self as MoveContainer<u32>>::new() }
    fn send(&self, v: u32) -> bool {
        let (len, back) = self.publish_movable(v);
        match (len, back) {
            (Some(_), None) => true,
            (None, Some(b)) => { assert!(b == v, "C01: a rejected payload must be handed back unchanged"); false }
            _ => { assert!(false, "C01: publish_movable answered neither accepted nor rejected"); false }
        }
    }
    fn recv(&self) -> Option<u32> { self.consume_movable() }
    fn len(&self) -> usize { self.available_elements_count() }
}

impl<const N: usize> Fifo for AZ<N> {
    const CAP: usize = N;
    fn make() -> Self { <Self as MetaContainer<u32>>::new() }
    fn send(&self, v: u32) -> bool {
        let (len, back) = self.publish_movable(v);
        match (len, back) {
            (Some(_), None) => true,
            (None, Some(b)) => { assert!(b == v, "C01: a rejected payload must be handed back unchanged"); false }
            _ => { assert!(false, "C01: publish_movable answered neither accepted nor rejected"); false }
        }
    }
    fn recv(&self) -> Option<u32> {
        match self.consume_leaking() {
            Some((r, id)) => { let v = *r; self.release_leaked_id(id); Some(v) }
            None => None,
        }
    }
    fn len(&self) -> usize { self.available_elements_count() }
}

impl<const N: usize> Fifo for FZ<N> {
    const CAP: usize = N;
    fn make() -> Self { <Self as MetaContainer<u32>>::new() }
    fn send(&self, v: u32) -> bool {
        let (len, back) = self.publish_movable(v);
        match (len, back) {
            (Some(_), None) => true,
            (None, Some(b)) => { assert!(b == v, "C01: a rejected payload must be handed back unchanged"); false }
            _ => { assert!(false, "C01: publish_movable answered neither accepted nor rejected"); false }
        }
    }
    fn recv(&self) -> Option<u32> {
        match self.consume_leaking() {
            Some((r, id)) => { let v = *r; self.release_leaked_id(id); Some(v) }
            None => None,
        }
    }
    fn len(&self) -> usize { self.available_elements_count() }
}
