//! C01 / C02 / C16 (sequential part) -- solver-chosen scripts of send / send_with / receive / length query against the array FIFO
//! model, sequence origin = any u32. Engine M decides the concurrent part of these properties; these harnesses decide the
//! "every input, every origin, every short history" part on the fully compiled code.

use crate::chans::*;
use crate::common::*;
use crate::rings::set_origins;

pub struct FifoState { pub model: ModelFifo, pub rejected: bool, pub emptied: bool, pub setter_rejected: bool }

#[cfg(kani)]
pub fn fifo_step<C: Chan>(ch: &C, st: &mut FifoState) {
    let op: u8 = kani::any();
    kani::assume(op < 4);
    if op == 0 {
        let v: u32 = kani::any();
        let before = ch.pending();
        let r = ch.send(v);
        let m = st.model.push(v);
        assert!(r == m, "C02: send accepted/rejected although the FIFO model says otherwise (capacity must be exactly BUFFER_SIZE)");
        if !r { st.rejected = true; assert!(ch.pending() == before, "C16: a rejected send changed the pending-items count"); }
    } else if op == 1 {
        let v: u32 = kani::any();
        let before = ch.pending();
        let r = ch.send_with(v);
        let m = st.model.push(v);
        assert!(r == m, "C02: send_with accepted/rejected although the FIFO model says otherwise");
        if !r { st.setter_rejected = true; assert!(ch.pending() == before, "C16: a rejected send_with changed the pending-items count"); }
    } else if op == 2 {
        let got = ch.recv();
        let want = st.model.pop();
        assert!(got == want, "C01/C02: received value differs from the FIFO model (lost, duplicated, reordered or unsent event)");
        if st.model.len() == 0 { st.emptied = true; }
    } else {
        assert!(ch.pending() as usize == st.model.len(), "C02: pending-items count differs from the FIFO model");
        assert!(ch.pending() as usize <= C::CAP, "C02: more than BUFFER_SIZE events pending");
    }
}

#[cfg(kani)]
pub fn fifo_drain_one<C: Chan>(ch: &C, st: &mut FifoState) {
    let got = ch.recv();
    let want = st.model.pop();
    assert!(got == want, "C01/C02: drained value differs from the FIFO model");
}

/// `fifo_script!(Type, CAP, L)`: L solver-chosen steps, then a full drain, then CAP sends must be accepted again (C16: never fewer)
macro_rules! fifo_script {
    ($C:ty, $CAP:tt, $L:tt) => {{
        let o: u32 = kani::any();
        set_origins([o, o, o, o]);
        let ch = <$C as Chan>::make();
        let mut st = FifoState { model: ModelFifo::new($CAP), rejected: false, emptied: false, setter_rejected: false };
        crate::rep!($L, { fifo_step::<$C>(&ch, &mut st); });
        crate::rep!($CAP, { fifo_drain_one::<$C>(&ch, &mut st); });
        assert!(ch.recv().is_none(), "C01: a drained channel yielded one more value");
        crate::rep!($CAP, { let v: u32 = kani::any(); assert!(ch.send(v), "C16: fewer than BUFFER_SIZE events accepted after a drain"); st.model.push(v); });
        let extra: u32 = kani::any();
        assert!(!ch.send(extra), "C02: more than BUFFER_SIZE events accepted");
        crate::rep!($CAP, { fifo_drain_one::<$C>(&ch, &mut st); });
        kani::cover!(st.rejected && st.emptied, "script hit both the full and the empty condition");
        kani::cover!(o >= u32::MAX - 1 && st.rejected, "a send was rejected right at the 2^32 wrap of the sequence counters");
        std::mem::forget(ch);
    }};
}

#[cfg(kani)] #[kani::proof] #[kani::unwind(3)] #[kani::stub(std::hint::spin_loop, noop_spin)]
fn c01_ring_atomic_n2_l5() { fifo_script!(RingChan<2>, 2, 5) }
#[cfg(kani)] #[kani::proof] #[kani::unwind(3)] #[kani::stub(std::hint::spin_loop, noop_spin)]
fn c01_ring_full_sync_n2_l5() { fifo_script!(FullSyncRingChan<2>, 2, 5) }
#[cfg(kani)] #[kani::proof] #[kani::unwind(3)] #[kani::stub(std::hint::spin_loop, noop_spin)]
fn c01_zc_atomic_n2_l4() { fifo_script!(AtomicZcChan<2>, 2, 4) }
#[cfg(kani)] #[kani::proof] #[kani::unwind(3)] #[kani::stub(std::hint::spin_loop, noop_spin)]
fn c01_zc_full_sync_n2_l4() { fifo_script!(FullSyncZcChan<2>, 2, 4) }
#[cfg(kani)] #[kani::proof] #[kani::unwind(5)] #[kani::stub(std::hint::spin_loop, noop_spin)]
fn c01_ring_atomic_n4_l6() { fifo_script!(RingChan<4>, 4, 6) }
#[cfg(kani)] #[kani::proof] #[kani::unwind(5)] #[kani::stub(std::hint::spin_loop, noop_spin)]
fn c01_ring_full_sync_n4_l6() { fifo_script!(FullSyncRingChan<4>, 4, 6) }

// ---- channel level (real ChannelProducer / ChannelConsumer API of the five Uni channels), thorough tier
macro_rules! chan_harness {
    ($name:ident, $C:ty, $CAP:tt, $L:tt) => {
        #[cfg(kani)] #[kani::proof] #[kani::unwind(3)]
        #[kani::stub(std::hint::spin_loop, noop_spin)]
        #[kani::stub(reactive_mutiny::verif::StreamsManagerBase::wake_stream, noop_wake_stream)]
        #[kani::stub(<[u32]>::sort_unstable, insertion_sort)]
        fn $name() { fifo_script!($C, $CAP, $L) }
    };
}
chan_harness!(c01_uni_move_atomic_n2_l3, UMA<2, 1>, 2, 3);
chan_harness!(c01_uni_move_full_sync_n2_l3, UMF<2, 1>, 2, 3);
chan_harness!(c01_uni_zero_copy_atomic_n2_l3, UZA<2, 1>, 2, 3);
chan_harness!(c01_uni_zero_copy_full_sync_n2_l3, UZF<2, 1>, 2, 3);
chan_harness!(c01_uni_move_crossbeam_n2_l3, UMC<2, 1>, 2, 3);
