//! Reference models, stubs and helpers shared by all harnesses

use std::task::{RawWaker, RawWakerVTable, Waker};

/// Bounded FIFO reference model over a plain array (no heap): the sequential specification
/// every ring buffer / channel is compared against. Capacity is a run-time field (<= MAXCAP).
pub const MAXCAP: usize = 8;
#[derive(Clone, Copy)]
pub struct ModelFifo {
    pub items: [u32; MAXCAP],
    pub head:  usize,
    pub len:   usize,
    pub cap:   usize,
}
impl ModelFifo {
    pub fn new(cap: usize) -> Self { Self { items: [0; MAXCAP], head: 0, len: 0, cap } }
    pub fn push(&mut self, v: u32) -> bool {
        if self.len >= self.cap { return false; }
        self.items[(self.head + self.len) % MAXCAP] = v;
        self.len += 1;
        true
    }
    pub fn pop(&mut self) -> Option<u32> {
        if self.len == 0 { return None; }
        let v = self.items[self.head];
        self.head = (self.head + 1) % MAXCAP;
        self.len -= 1;
        Some(v)
    }
    pub fn len(&self) -> usize { self.len }
}

/// Replacement for `<[T]>::sort_unstable` in harnesses that go through `StreamsManagerBase`
/// (the generic pattern-defeating quicksort makes CBMC's symbolic execution explode).
/// Justified by `c00_sort_stub_agrees_with_real_sort` (see `stubs_justification`).
pub fn insertion_sort<T: Ord>(v: &mut [T]) {
    let n = v.len();
    let mut i = 1;
    while i < n {
        let mut j = i;
        while j > 0 && v[j - 1] > v[j] { v.swap(j - 1, j); j -= 1; }
        i += 1;
    }
}

/// Kani stub for `std::hint::spin_loop` (the `pause` intrinsic is not supported by Kani; it has no semantics)
pub fn noop_spin() {}

// ---- abstract waker -------------------------------------------------------------------------
// A waker is a task id (the RawWaker data word). Waking sets WOKEN[task]. In native builds the
// vtable functions do exactly what the Kani stubs below model.

pub const MAX_TASKS: usize = 4;
pub static mut WOKEN: [u32; MAX_TASKS] = [0; MAX_TASKS];

fn vt_clone(p: *const ()) -> RawWaker { raw_waker(p as usize) }
fn vt_wake(p: *const ()) { unsafe { WOKEN[(p as usize) % MAX_TASKS] += 1; } }
fn vt_wake_by_ref(p: *const ()) { unsafe { WOKEN[(p as usize) % MAX_TASKS] += 1; } }
fn vt_drop(_p: *const ()) {}
static VTABLE: RawWakerVTable = RawWakerVTable::new(vt_clone, vt_wake, vt_wake_by_ref, vt_drop);

pub fn raw_waker(task: usize) -> RawWaker { RawWaker::new(task as *const (), &VTABLE) }
pub fn task_waker(task: usize) -> Waker { unsafe { Waker::from_raw(raw_waker(task)) } }

// Kani stubs for the four places where `core` calls through the vtable
pub fn stub_wake_by_ref(w: &Waker) { unsafe { WOKEN[(w.data() as usize) % MAX_TASKS] += 1; } }
pub fn stub_wake(w: Waker) { unsafe { WOKEN[(w.data() as usize) % MAX_TASKS] += 1; } std::mem::forget(w); }
pub fn stub_waker_clone(w: &Waker) -> Waker { unsafe { Waker::from_raw(raw_waker(w.data() as usize)) } }
pub fn stub_waker_drop(_w: &mut Waker) {}

pub fn woken(task: usize) -> bool { unsafe { WOKEN[task] > 0 } }
pub fn clear_woken(task: usize) { unsafe { WOKEN[task] = 0; } }

#[macro_export]
macro_rules! cover {
    ($cond:expr, $msg:expr) => {
        #[cfg(kani)]
        kani::cover!($cond, $msg);
    };
}

/// `rep!(N, { body })` repeats `body` N times (N a literal 1..=8): harness scripts are unrolled by macro so that
/// no harness loop needs a large global unwind bound.
#[macro_export]
macro_rules! rep {
    (1, $b:block) => { $b };
    (2, $b:block) => { $b $b };
    (3, $b:block) => { $b $b $b };
    (4, $b:block) => { $b $b $b $b };
    (5, $b:block) => { $b $b $b $b $b };
    (6, $b:block) => { $b $b $b $b $b $b };
    (7, $b:block) => { $b $b $b $b $b $b $b };
    (8, $b:block) => { $b $b $b $b $b $b $b $b };
}
