//! C10 -- listener lifetime and stream-id recycling (histories).
//!
//! (a) bookkeeping of `StreamsManagerBase` (shared verbatim by all Uni and Multi channels): solver-chosen histories of
//!     create / drop from ANY position of the vacant-id ring's sequence counters (= after any number of earlier create/drop
//!     cycles): ids handed out are vacant ones, the running count equals the number of live streams, the live list is the
//!     sorted set of live ids terminated by u32::MAX, and the ids are never exhausted while <= MAX_STREAMS streams live.
//! (b) Multi channels: a listener created after an earlier one was dropped (with or without unconsumed events) yields
//!     exactly the events sent during ITS lifetime -- nothing older.

use crate::chans::noop_wake_stream;
use crate::common::*;
use crate::rings::set_origins;
use reactive_mutiny::prelude::advanced::*;
use reactive_mutiny::prelude::*;
use reactive_mutiny::verif::StreamsManagerBase;
use std::sync::Arc;

pub struct Book<const MS: usize> { pub live: [bool; MS], pub n: u32, pub dropped_any: bool, pub recycled: bool, pub was_live: [bool; MS] }

pub fn check_books<const MS: usize>(sm: &StreamsManagerBase<MS>, b: &Book<MS>) {
    assert!(sm.running_streams_count() == b.n, "C10: running-stream count differs from the number of live streams");
    let used = sm.used_streams();
    let mut j = 0usize;
    let mut i = 0usize;
    while i < MS {
        if b.live[i] { assert!(used[j] == i as u32, "C10: live-stream list is not the sorted set of live ids"); j += 1; }
        i += 1;
    }
    while j < MS { assert!(used[j] == u32::MAX, "C10: live-stream list is not terminated by the sentinel"); j += 1; }
}

#[cfg(kani)]
pub fn book_step<const MS: usize>(sm: &StreamsManagerBase<MS>, b: &mut Book<MS>) {
    let create: bool = kani::any();
    if create {
        kani::assume((b.n as usize) < MS);                  // "at most MAX_STREAMS streams exist at a time"
        let id = sm.create_stream_id() as usize;            // must not panic ("MAX_STREAMS exhausted")
        assert!(id < MS, "C10: stream id out of range");
        assert!(!b.live[id], "C10: the id of a live stream was handed out again");
        assert!(sm.keep_stream_running(id as u32), "C10: a freshly created stream is already told to end");
        if b.was_live[id] { b.recycled = true; }
        b.live[id] = true; b.was_live[id] = true; b.n += 1;
    } else {
        let id: usize = kani::any();
        kani::assume(id < MS && b.live[id]);
        sm.report_stream_dropped(id as u32);
        b.live[id] = false; b.n -= 1; b.dropped_any = true;
    }
    check_books(sm, b);
}

macro_rules! book_script {
    ($MS:tt, $L:tt) => {{
        let o: u32 = kani::any();
        set_origins([o, o, o, o]);
        let sm = StreamsManagerBase::<$MS>::new("s");
        let mut b = Book::<$MS> { live: [false; $MS], n: 0, dropped_any: false, recycled: false, was_live: [false; $MS] };
        check_books(&sm, &b);
        crate::rep!($L, { book_step::<$MS>(&sm, &mut b); });
        kani::cover!(b.recycled, "a stream id was handed out a second time (recycled)");
        kani::cover!(b.recycled && o > u32::MAX - 4, "an id was recycled while the vacant-id ring's counters crossed 2^32");
        std::mem::forget(sm);
    }};
}

#[cfg(kani)] #[kani::proof] #[kani::unwind(4)]
#[kani::stub(std::hint::spin_loop, noop_spin)]
#[kani::stub(<[u32]>::sort_unstable, insertion_sort)]
#[kani::stub(<std::task::Waker as std::ops::Drop>::drop, stub_waker_drop)]
fn c10_books_ms1_l4() { book_script!(1, 4) }

#[cfg(kani)] #[kani::proof] #[kani::unwind(4)]
#[kani::stub(std::hint::spin_loop, noop_spin)]
#[kani::stub(<[u32]>::sort_unstable, insertion_sort)]
#[kani::stub(<std::task::Waker as std::ops::Drop>::drop, stub_waker_drop)]
fn c10_books_ms2_l4() { book_script!(2, 4) }

#[cfg(kani)] #[kani::proof] #[kani::unwind(6)]
#[kani::stub(std::hint::spin_loop, noop_spin)]
#[kani::stub(<[u32]>::sort_unstable, insertion_sort)]
#[kani::stub(<std::task::Waker as std::ops::Drop>::drop, stub_waker_drop)]
fn c10_books_ms2_l6() { book_script!(2, 6) }

#[cfg(kani)] #[kani::proof] #[kani::unwind(6)]
#[kani::stub(std::hint::spin_loop, noop_spin)]
#[kani::stub(<[u32]>::sort_unstable, insertion_sort)]
#[kani::stub(<std::task::Waker as std::ops::Drop>::drop, stub_waker_drop)]
fn c10_books_ms4_l5() { book_script!(4, 5) }


// ---- fixed-shape histories (which id is dropped stays the solver's choice): much cheaper for CBMC than a symbolic operation per step
#[cfg(kani)]
pub fn book_create<const MS: usize>(sm: &StreamsManagerBase<MS>, b: &mut Book<MS>) {
    let id = sm.create_stream_id() as usize;
    assert!(id < MS, "C10: stream id out of range");
    assert!(!b.live[id], "C10: the id of a live stream was handed out again");
    assert!(sm.keep_stream_running(id as u32), "C10: a freshly created stream is already told to end");
    if b.was_live[id] { b.recycled = true; }
    b.live[id] = true; b.was_live[id] = true; b.n += 1;
    check_books(sm, b);
}
#[cfg(kani)]
pub fn book_drop<const MS: usize>(sm: &StreamsManagerBase<MS>, b: &mut Book<MS>) {
    let id: usize = kani::any();
    kani::assume(id < MS && b.live[id]);
    sm.report_stream_dropped(id as u32);
    b.live[id] = false; b.n -= 1; b.dropped_any = true;
    check_books(sm, b);
}
macro_rules! shape_harness {
    ($name:ident, $MS:tt, [$($op:ident),*]) => { shape_harness!($name, $MS, kani::any::<u32>(), [$($op),*]); };
    ($name:ident, $MS:tt, $origin:expr, [$($op:ident),*]) => { shape_harness!($name, $MS, 4, $origin, [$($op),*]); };
    ($name:ident, $MS:tt, $UNW:tt, $origin:expr, [$($op:ident),*]) => {
        #[cfg(kani)] #[kani::proof] #[kani::unwind($UNW)]
        #[kani::stub(std::hint::spin_loop, noop_spin)]
        #[kani::stub(<[u32]>::sort_unstable, insertion_sort)]
#[kani::stub(<std::task::Waker as std::ops::Drop>::drop, stub_waker_drop)]
        fn $name() {
            let o: u32 = $origin;
            set_origins([o, o, o, o]);
            let sm = StreamsManagerBase::<$MS>::new("s");
            let mut b = Book::<$MS> { live: [false; $MS], n: 0, dropped_any: false, recycled: false, was_live: [false; $MS] };
            check_books(&sm, &b);
            $( $op::<$MS>(&sm, &mut b); )*
            kani::cover!(b.n as usize <= $MS, "the whole history is executable (assumptions satisfiable, no earlier panic)");
            std::mem::forget(sm);
        }
    };
}
shape_harness!(c10_shape_ms1_cdcd, 1, [book_create, book_drop, book_create, book_drop]);
shape_harness!(c10_shape_ms1_cdcd_o0, 1, 0u32, [book_create, book_drop, book_create, book_drop]);
shape_harness!(c10_shape_ms2_ccdc_wrap, 2, u32::MAX - 1, [book_create, book_create, book_drop, book_create]);
shape_harness!(c10_shape_ms2_ccdc, 2, [book_create, book_create, book_drop, book_create]);
shape_harness!(c10_shape_ms2_cdcc, 2, [book_create, book_drop, book_create, book_create]);
shape_harness!(c10_shape_ms2_ccdd, 2, [book_create, book_create, book_drop, book_drop]);
shape_harness!(c10_shape_ms2_ccddcc, 2, [book_create, book_create, book_drop, book_drop, book_create, book_create]);

// concrete-origin instances (seconds each; a symbolic origin makes the Vec/concat/sort code of the live-list rebuild cost > 15 min per harness)
shape_harness!(c10_shape_ms2_ccdc_o0, 2, 0u32, [book_create, book_create, book_drop, book_create]);
shape_harness!(c10_shape_ms2_cdcc_o0, 2, 0u32, [book_create, book_drop, book_create, book_create]);
shape_harness!(c10_shape_ms2_ccddcc_wrap, 2, u32::MAX - 2, [book_create, book_create, book_drop, book_drop, book_create, book_create]);
shape_harness!(c10_shape_ms4_cccdc_o0, 4, 6, 0u32, [book_create, book_create, book_create, book_drop, book_create]);
shape_harness!(c10_shape_ms4_ccdcdc_wrap, 4, 6, u32::MAX - 1, [book_create, book_create, book_drop, book_create, book_drop, book_create]);

// ---- (b) channel level: what a recycled listener yields -------------------------------------------------------------
/// uniform view of the Multi channels: send one u32, take one event of listener `id` (its value), count listeners
pub trait MChan: Sized {
    type Stream;
    fn make() -> Arc<Self>;
    fn listen(this: &Arc<Self>) -> (Self::Stream, u32);
    fn send1(&self, v: u32);
    fn take(&self, id: u32) -> Option<u32>;
    fn listeners(&self) -> u32;
}
macro_rules! mchan_arc {
    ($ty:ident) => {
        impl<const N: usize, const MS: usize> MChan for $ty<u32, N, MS> {
            type Stream = MutinyStream<'static, u32, Self, Arc<u32>>;
            fn make() -> Arc<Self> { Self::new("c") }
            fn listen(this: &Arc<Self>) -> (Self::Stream, u32) { this.create_stream_for_new_events() }
            fn send1(&self, v: u32) { let _ = ChannelProducer::send(self, v); }
            fn take(&self, id: u32) -> Option<u32> { self.consume(id).map(|a| *a) }
            fn listeners(&self) -> u32 { self.running_streams_count() }
        }
    };
}
mchan_arc!(ChannelMultiArcAtomic);
mchan_arc!(ChannelMultiArcFullSync);
mchan_arc!(ChannelMultiArcCrossbeam);
macro_rules! mchan_ogre {
    ($ty:ident, $alloc:ident) => {
        impl<const N: usize, const MS: usize> MChan for $ty<u32, N, MS> {
            type Stream = MutinyStream<'static, u32, Self, OgreArc<u32, $alloc<u32, N>>>;
            fn make() -> Arc<Self> { Self::new("c") }
            fn listen(this: &Arc<Self>) -> (Self::Stream, u32) { this.create_stream_for_new_events() }
            fn send1(&self, v: u32) { let _ = ChannelProducer::send(self, v); }
            fn take(&self, id: u32) -> Option<u32> { self.consume(id).map(|a| { let v = *a; drop(a); v }) }
            fn listeners(&self) -> u32 { self.running_streams_count() }
        }
    };
}
mchan_ogre!(ChannelMultiOgreArcAtomic, AllocatorAtomicArray);
mchan_ogre!(ChannelMultiOgreArcFullSync, AllocatorFullSyncArray);

/// history (MAX_STREAMS = 2; ids are handed out in FIFO order of the vacant ring): listener A (id 0) is created, one event is sent,
/// A consumes it or not (solver's choice), A is dropped; B is created (id 1), then C, which recycles A's id; neither may yield
/// anything yet; a second event is sent: B and C yield exactly that one.
macro_rules! recycle_script {
    ($C:ty, $origin:expr) => {{
        let o: u32 = $origin;
        set_origins([o, o, o, o]);
        let ch = <$C as MChan>::make();
        let (a, ida) = <$C as MChan>::listen(&ch);
        assert!(ch.listeners() == 1, "C10: running-stream count after the first listener was created");
        let v1: u32 = kani::any();
        ch.send1(v1);
        let consumes: bool = kani::any();
        if consumes { assert!(ch.take(ida) == Some(v1), "C03/C10: the listener does not yield the event sent during its lifetime"); }
        drop(a);
        assert!(ch.listeners() == 0, "C10: running-stream count after the listener was dropped");
        let (b, idb) = <$C as MChan>::listen(&ch);
        let (c, idc) = <$C as MChan>::listen(&ch);
        assert!(ch.listeners() == 2, "C10: running-stream count after two more listeners were created");
        assert!(idb != idc, "C10: two live listeners share a stream id");
        kani::cover!(!consumes && (idc == ida || idb == ida), "a new listener recycles the id of a listener that left an event unconsumed");
        assert!(ch.take(idb).is_none(), "C10: a new listener yielded an event that was sent before its creation (left over by an earlier listener)");
        assert!(ch.take(idc).is_none(), "C10: a new listener yielded an event that was sent before its creation (left over by an earlier listener)");
        let v2: u32 = kani::any();
        ch.send1(v2);
        assert!(ch.take(idb) == Some(v2) && ch.take(idc) == Some(v2), "C10: a listener does not yield the event sent during its lifetime");
        assert!(ch.take(idb).is_none() && ch.take(idc).is_none(), "C10: a listener yields more than was sent during its lifetime");
        std::mem::forget(b); std::mem::forget(c);
        std::mem::forget(ch);
    }};
}

macro_rules! recycle_harness {
    ($name:ident, $C:ty, $origin:expr) => {
        #[cfg(kani)] #[kani::proof] #[kani::unwind(4)]
        #[kani::stub(std::hint::spin_loop, noop_spin)]
        #[kani::stub(reactive_mutiny::verif::StreamsManagerBase::wake_stream, noop_wake_stream)]
        #[kani::stub(<[u32]>::sort_unstable, insertion_sort)]
        #[kani::stub(<std::task::Waker as std::ops::Drop>::drop, stub_waker_drop)]
        fn $name() { recycle_script!($C, $origin) }
    };
}
recycle_harness!(c10_recycle_arc_atomic, ChannelMultiArcAtomic<u32, 2, 2>, 0u32);
recycle_harness!(c10_recycle_arc_atomic_wrap, ChannelMultiArcAtomic<u32, 2, 2>, u32::MAX);
recycle_harness!(c10_recycle_arc_full_sync, ChannelMultiArcFullSync<u32, 2, 2>, 0u32);
recycle_harness!(c10_recycle_arc_crossbeam, ChannelMultiArcCrossbeam<u32, 2, 2>, 0u32);
recycle_harness!(c10_recycle_ogre_arc_atomic, ChannelMultiOgreArcAtomic<u32, 2, 2>, 0u32);
recycle_harness!(c10_recycle_ogre_arc_full_sync, ChannelMultiOgreArcFullSync<u32, 2, 2>, 0u32);

/// minimal history (MAX_STREAMS = 1): A created, one event sent, consumed or not, A dropped, B created (recycles A's id)
macro_rules! recycle1_harness {
    ($name:ident, $C:ty, $origin:expr) => {
        #[cfg(kani)] #[kani::proof] #[kani::unwind(3)]
        #[kani::stub(std::hint::spin_loop, noop_spin)]
        #[kani::stub(reactive_mutiny::verif::StreamsManagerBase::wake_stream, noop_wake_stream)]
        #[kani::stub(<[u32]>::sort_unstable, insertion_sort)]
        #[kani::stub(<std::task::Waker as std::ops::Drop>::drop, stub_waker_drop)]
        fn $name() {
            let o: u32 = $origin;
            set_origins([o, o, o, o]);
            let ch = <$C as MChan>::make();
            let (a, ida) = <$C as MChan>::listen(&ch);
            let v1: u32 = kani::any();
            ch.send1(v1);
            let consumes: bool = kani::any();
            if consumes { assert!(ch.take(ida) == Some(v1), "C03/C10: the listener does not yield the event sent during its lifetime"); }
            drop(a);
            assert!(ch.listeners() == 0, "C10: running-stream count after the listener was dropped");
            let (b, idb) = <$C as MChan>::listen(&ch);
            kani::cover!(!consumes && idb == ida, "the new listener recycles the id of a listener that left an event unconsumed");
            assert!(ch.take(idb).is_none(), "C10: a new listener yielded an event that was sent before its creation (left over by an earlier listener)");
            std::mem::forget(b);
            std::mem::forget(ch);
        }
    };
}
recycle1_harness!(c10_recycle1_arc_atomic, ChannelMultiArcAtomic<u32, 2, 1>, 0u32);
recycle1_harness!(c10_recycle1_arc_full_sync, ChannelMultiArcFullSync<u32, 2, 1>, 0u32);
recycle1_harness!(c10_recycle1_arc_crossbeam, ChannelMultiArcCrossbeam<u32, 2, 1>, 0u32);
recycle1_harness!(c10_recycle1_ogre_arc_atomic, ChannelMultiOgreArcAtomic<u32, 2, 1>, 0u32);
recycle1_harness!(c10_recycle1_ogre_arc_full_sync, ChannelMultiOgreArcFullSync<u32, 2, 1>, 0u32);

/// the interesting half of the history above, alone (cheaper): A leaves its event unconsumed
#[cfg(kani)] #[kani::proof] #[kani::unwind(3)]
#[kani::stub(std::hint::spin_loop, noop_spin)]
#[kani::stub(reactive_mutiny::verif::StreamsManagerBase::wake_stream, noop_wake_stream)]
#[kani::stub(<[u32]>::sort_unstable, insertion_sort)]
#[kani::stub(<std::task::Waker as std::ops::Drop>::drop, stub_waker_drop)]
fn c10_recycle1_leftover_arc_atomic() {
    type C = ChannelMultiArcAtomic<u32, 2, 1>;
    set_origins([0, 0, 0, 0]);
    let ch = <C as MChan>::make();
    let (a, ida) = <C as MChan>::listen(&ch);
    let v1: u32 = kani::any();
    ch.send1(v1);
    drop(a);
    assert!(ch.listeners() == 0, "C10: running-stream count after the listener was dropped");
    let (b, idb) = <C as MChan>::listen(&ch);
    kani::cover!(idb == ida, "the new listener recycles the id of a listener that left an event unconsumed");
    assert!(ch.take(idb).is_none(), "C10: a new listener yielded an event that was sent before its creation (left over by an earlier listener)");
    std::mem::forget(b);
    std::mem::forget(ch);
}
