//! C13 (sequential / history part) -- the pool allocator: exhaust / refill cycles from any free-list origin, ownership ledger,
//! id <-> reference bijection onto the pool. (Concurrent alloc/dealloc: engine M.)

use crate::common::*;
use crate::rings::{set_origins, AllocA, AllocF};
use reactive_mutiny::ogre_std::ogre_alloc::BoundedOgreAllocator;

pub struct PoolState { pub owned: [bool; 4], pub n_owned: usize, pub exhausted: bool, pub refilled: bool }

#[cfg(kani)]
pub fn pool_step<A: BoundedOgreAllocator<u32>, const N: usize>(a: &A, st: &mut PoolState) {
    let op: u8 = kani::any();
    kani::assume(op < 3);
    if op == 0 {
        match a.alloc_ref() {
            Some((r, id)) => {
                assert!((id as usize) < N, "C13: allocated id outside the pool");
                assert!(!st.owned[id as usize], "C13: a slot was handed out while still allocated");
                assert!(st.n_owned < N, "C13: more than POOL_SIZE slots outstanding");
                assert!(a.id_from_ref(r) == id, "C13: id_from_ref(alloc reference) != alloc id");
                assert!(std::ptr::eq(a.ref_from_id(id) as *const u32, r as *const u32), "C13: ref_from_id(alloc id) is not the allocated reference");
                st.owned[id as usize] = true; st.n_owned += 1;
            }
            None => { assert!(st.n_owned == N, "C13: allocation failed although a slot was free"); st.exhausted = true; }
        }
    } else if op == 1 {
        let id: u32 = kani::any();
        kani::assume((id as usize) < N && st.owned[id as usize]);
        a.dealloc_id(id);
        st.owned[id as usize] = false; st.n_owned -= 1;
        if st.exhausted { st.refilled = true; }
    } else {
        let id: u32 = kani::any();
        kani::assume((id as usize) < N && st.owned[id as usize]);
        let r = a.ref_from_id(id);
        a.dealloc_ref(r);
        st.owned[id as usize] = false; st.n_owned -= 1;
        if st.exhausted { st.refilled = true; }
    }
}

macro_rules! pool_script {
    ($A:ty, $N:tt, $L:tt) => {{
        let o: u32 = kani::any();
        set_origins([o, o, o, o]);
        let a = <$A as BoundedOgreAllocator<u32>>::new();
        let mut st = PoolState { owned: [false; 4], n_owned: 0, exhausted: false, refilled: false };
        crate::rep!($L, { pool_step::<$A, $N>(&a, &mut st); });
        // whatever happened: exactly the not-owned slots are allocatable, each once
        crate::rep!($N, {
            if st.n_owned < $N {
                match a.alloc_ref() {
                    Some((_r, id)) => { assert!(((id as usize) < $N) && !st.owned[id as usize], "C13: a slot was handed out while still allocated"); st.owned[id as usize] = true; st.n_owned += 1; }
                    None => assert!(false, "C13: a deallocated slot did not become allocatable again"),
                }
            }
        });
        assert!(a.alloc_ref().is_none(), "C13: more than POOL_SIZE slots handed out");
        kani::cover!(st.exhausted && st.refilled, "script exhausted the pool and refilled it");
        kani::cover!(o >= u32::MAX - 2, "free-list counters crossed 2^32");
        std::mem::forget(a);
    }};
}

#[cfg(kani)] #[kani::proof] #[kani::unwind(4)] #[kani::stub(std::hint::spin_loop, noop_spin)]
fn c13_pool_atomic_n2_l5() { pool_script!(AllocA<2>, 2, 5) }
#[cfg(kani)] #[kani::proof] #[kani::unwind(4)] #[kani::stub(std::hint::spin_loop, noop_spin)]
fn c13_pool_full_sync_n2_l5() { pool_script!(AllocF<2>, 2, 5) }
#[cfg(kani)] #[kani::proof] #[kani::unwind(6)] #[kani::stub(std::hint::spin_loop, noop_spin)]
fn c13_pool_atomic_n4_l6() { pool_script!(AllocA<4>, 4, 6) }

/// id <-> reference conversion is a bijection onto the pool, for payload sizes 1, 4 and 24 bytes
#[cfg(kani)]
fn bijection<T: Send + Sync + std::fmt::Debug, A: BoundedOgreAllocator<T>>(n: u32) {
    let a = A::new();
    let i: u32 = kani::any(); let j: u32 = kani::any();
    kani::assume(i < n && j < n);
    let ri = a.ref_from_id(i) as *const T; let rj = a.ref_from_id(j) as *const T;
    assert!(a.id_from_ref(unsafe { &*ri }) == i, "C13: id_from_ref(ref_from_id(i)) != i");
    assert!((i == j) == (ri == rj), "C13: id -> reference is not injective");
    let base = a.ref_from_id(0) as *const T as usize;
    assert!(ri as usize == base + (i as usize) * std::mem::size_of::<T>(), "C13: reference is not the i-th pool slot");
    kani::cover!(i != j && i == n - 1, "distinct ids incl. the last slot");
    kani::cover!(i == j, "same id twice");
    std::mem::forget(a);
}
#[derive(Debug)] pub struct P24 { pub a: u64, pub b: u64, pub c: u64 }
use reactive_mutiny::ogre_std::ogre_alloc::ogre_array_pool_allocator::OgreArrayPoolAllocator;
use reactive_mutiny::ogre_std::ogre_queues::atomic::atomic_move::AtomicMove;
#[cfg(kani)] #[kani::proof] #[kani::unwind(6)] #[kani::stub(std::hint::spin_loop, noop_spin)]
fn c13_bijection_u8_n4() { bijection::<u8, OgreArrayPoolAllocator<u8, AtomicMove<u32, 4>, 4>>(4) }
#[cfg(kani)] #[kani::proof] #[kani::unwind(6)] #[kani::stub(std::hint::spin_loop, noop_spin)]
fn c13_bijection_u32_n4() { bijection::<u32, OgreArrayPoolAllocator<u32, AtomicMove<u32, 4>, 4>>(4) }
#[cfg(kani)] #[kani::proof] #[kani::unwind(6)] #[kani::stub(std::hint::spin_loop, noop_spin)]
fn c13_bijection_p24_n4() { bijection::<P24, OgreArrayPoolAllocator<P24, AtomicMove<u32, 4>, 4>>(4) }
