import sys, time, json
sys.path.insert(0, '/verif/mir')
import mirdump
from queries import *
path, dt = mirdump.dump(); print('mir', dt)
ctx = Ctx(path, 'quick', '/verif/.build/mir/work')
kind, N, k, oracle = sys.argv[1], int(sys.argv[2]), int(sys.argv[3]), sys.argv[4]
threads = json.loads(sys.argv[5])
t0 = time.time()
r = fifo_query(ctx, 'dev-%s' % kind, kind, N, k, threads, oracle, int(sys.argv[6]) if len(sys.argv) > 6 else 3, 900)
print(json.dumps({a: b for a, b in r.items() if a not in ('functions', 'intrinsics', 'witness_trace')}, indent=0)[:3000])
print('total', time.time() - t0)
