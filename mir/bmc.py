"""Bounded model checking over schedules: unrolls S global steps of the product of the thread graphs with a SYMBOLIC
scheduler, bit-blasts with z3 (used as encoder) and decides with kissat. Memory model: sequential consistency."""
import os, re, subprocess, time, tempfile
import z3
from mirparse import EncodingError
from interp import Ptr, LRef, Agg, Enum, UNIT, sx, BV


_NAME_RE = re.compile(r"^c \d+ (.*)$", re.M)
_IDENT_RE = re.compile(r"^[A-Za-z_][A-Za-z0-9_!.]*$")
_INTERPRETED = {"bvule", "bvsle", "bvult", "bvslt", "bvuge", "bvsge", "bvugt", "bvsgt", "distinct", "if", "ite", "and", "or", "not", "xor", "iff",
                "implies", "true", "false", "bvadd", "bvsub", "bvmul", "bvudiv", "bvurem", "bvsdiv", "bvsrem", "bvsmod", "bvand", "bvor", "bvxor",
                "bvnot", "bvneg", "bvshl", "bvlshr", "bvashr", "concat", "extract", "select", "store", "bit2bool"}


def _bits(n):
    b = 1
    while (1 << b) < n: b += 1
    return b


class BMC:
    def __init__(self, graphs, mem, S, opts=None):
        """graphs: list of ThreadGraph (threads flagged after_all must come last); mem: layout dict; S: number of global steps"""
        self.G = graphs; self.mem = mem; self.S = S
        self.opts = opts or {}
        self.T = len(graphs)
        self.after = [bool(self.opts.get("after_all", {}).get(t)) for t in range(self.T)]
        self.por = self.opts.get("por", True)
        self.asserts = []
        self._subcache = {}; self._rescache = {}; self._keep = []
        t0 = time.time()
        self.build()
        if os.environ.get("VERIF_M_DEBUG"):
            import sys
            print("BMC: S=%d threads=%d vis-nodes=%s regs=%s mem-cells=%d asserts=%d build=%.1fs" % (
                self.S, self.T, [len(g.vis()) for g in self.G], [len(r) for r in self.regs],
                sum((d.get("n") or 1) for d in self.mem.values() if d["kind"] != "frozen"), len(self.asserts), time.time() - t0), file=sys.stderr)

    def add(self, *cs):
        self.asserts.extend(cs)

    # ---------------------------------------------------------------- helpers
    def at_step(self, t, e, k):
        if isinstance(e, z3.ExprRef):
            subs = self.subs[t][k]
            if not subs or z3.is_const(e) and e.decl().kind() != z3.Z3_OP_UNINTERPRETED: return e
            key = (t, e.get_id(), k)
            c = self._subcache.get(key)
            if c is None:
                c = z3.substitute(e, subs); self._subcache[key] = c; self._keep.append(e)
            return c
        return e

    def val_at(self, t, v, k):
        """substitutes registers in an arbitrary value structure"""
        if isinstance(v, z3.ExprRef): return self.at_step(t, v, k)
        if isinstance(v, Ptr): return Ptr(v.root, v.path, self.at_step(t, v.idx, k) if v.idx is not None else None)
        if isinstance(v, Agg): return Agg(v.kind, [self.val_at(t, x, k) for x in v.fields], v.fn)
        if isinstance(v, Enum): return Enum(v.adt, self.at_step(t, v.discr, k), {i: [self.val_at(t, x, k) for x in p] for i, p in v.payloads.items()})
        return v

    def resolve(self, t, nid, k):
        """pc term reached from node nid at step k through branch nodes (guards evaluated on registers at step k)"""
        nodes = self.G[t].nodes
        n = nodes[nid]
        if n.kind != "branch": return z3.BitVecVal(nid, self.pcw[t])
        ck = (t, nid, k)
        if ck in self._rescache: return self._rescache[ck]
        e = z3.BitVecVal((1 << self.pcw[t]) - 1, self.pcw[t])      # 'nowhere' (infeasible)
        for c, ch in reversed(n.branches):
            e = z3.If(self.at_step(t, c, k), self.resolve(t, ch, k), e)
        self._rescache[ck] = e
        return e

    def blocked(self, t, k):
        """thread t sits at a `park` node and its task has not been woken"""
        conds = []
        for n in self.G[t].vis():
            if n.desc[0] == "park":
                task = self.val_at(t, n.desc[1], k)
                w = z3.Or([z3.And(task == z3.BitVecVal(i, task.size()), self.woken[k][i]) for i in range(self.ntasks)]) if self.ntasks else z3.BoolVal(False)
                conds.append(z3.And(self.pcs[t][k] == n.id, z3.Not(w)))
            elif n.desc[0] == "await":
                ready = z3.And([self.is_kind(u, k, "done") for u in self.opts.get("await_threads", [])] + [z3.BoolVal(True)])
                conds.append(z3.And(self.pcs[t][k] == n.id, z3.Not(ready)))
        return z3.Or(conds) if conds else z3.BoolVal(False)

    def parked(self, t, k):
        return self.blocked(t, k)

    def is_kind(self, t, k, kind):
        ids = [n.id for n in self.G[t].nodes if n.kind == kind]
        if not ids: return z3.BoolVal(False)
        return z3.Or([self.pcs[t][k] == i for i in ids])

    # ---------------------------------------------------------------- encoding
    def build(self):
        S, T = self.S, self.T
        self.pcw = [max(2, _bits(len(g.nodes) + 2)) for g in self.G]
        # shared memory
        self.memv = []
        for k in range(S + 1):
            mv = {}
            for key, d in self.mem.items():
                nm = "m%d_%s_%s" % (k, key[0], "_".join(str(x).replace("*", "b") for x in key[1]))
                if d["kind"] in ("atomic", "plain"): mv[key] = z3.Const(nm, d["sort"])
                elif d["kind"] == "array": mv[key] = [z3.Const("%s_%d" % (nm, j), d["sort"]) for j in range(d["n"])]
            self.memv.append(mv)
        for key, d in self.mem.items():
            if d["kind"] in ("atomic", "plain"): self.add(self.memv[0][key] == d["init"])
            elif d["kind"] == "array":
                for j in range(d["n"]): self.add(self.memv[0][key][j] == d["init"][j])
        self.heap_roots = sorted(self.opts.get("heap_roots", []))
        self.alive = [{r: z3.Bool("alive%d_%s" % (k, r)) for r in self.heap_roots} for k in range(S + 1)]
        for r in self.heap_roots: self.add(self.alive[0][r])
        self.ntasks = self.opts.get("tasks", 0)
        self.woken = [[z3.Bool("woken%d_%d" % (k, i)) for i in range(self.ntasks)] for k in range(S + 1)]
        for i in range(self.ntasks): self.add(self.woken[0][i] == z3.BoolVal(bool(self.opts.get("woken_init", {}).get(i, False))))
        self.err = [z3.Bool("err%d" % k) for k in range(S + 1)]       # sticky: use-after-free / double free
        self.add(z3.Not(self.err[0]))
        self.freed_count = [{r: z3.BitVec("freed%d_%s" % (k, r), 4) for r in self.heap_roots} for k in range(S + 1)]
        for r in self.heap_roots: self.add(self.freed_count[0][r] == 0)
        self.pcs = [[z3.BitVec("pc%d_%d" % (t, k), self.pcw[t]) for k in range(S + 1)] for t in range(T)]
        sb = _bits(T)
        self.sched_bits = [[z3.Bool("sch%d_b%d" % (k, i)) for i in range(sb)] for k in range(S)]
        def bits_to_bv(bs):
            parts = [z3.If(b, BV(1, 1), BV(1, 0)) for b in reversed(bs)]
            return parts[0] if len(parts) == 1 else z3.Concat(*parts)
        self.sched = [bits_to_bv(self.sched_bits[k]) for k in range(S)]
        # registers
        self.regs = []; self.subs = []
        for t, g in enumerate(self.G):
            rs = {}
            for n in g.nodes:
                if n.kind == "vis":
                    for rv in n.rvars:
                        rs[rv] = [z3.Const("%s_s%d" % (rv, k), rv.sort()) for k in range(S + 1)]
            self.regs.append(rs)
            self.subs.append([[(rv, vs[k]) for rv, vs in rs.items()] for k in range(S + 1)])
        for t, g in enumerate(self.G):
            self.add(self.pcs[t][0] == self.resolve(t, g.root, 0))
        self.access = {}
        for t, g in enumerate(self.G):
            for n in g.vis():
                self.access[(t, n.id)] = self.node_access(n)
        self.boundary = {}
        if self.opts.get("real_time_order"):
            for t, g in enumerate(self.G):
                self.boundary[t] = self.boundary_nodes(g)
        for k in range(S):
            self.step(k)

    def node_access(self, n):
        d = n.desc; kind = d[0]
        if kind in ("aload", "pload"): return (d[1], False)
        if kind in ("astore", "aswap", "afadd", "afsub", "acas", "pstore", "armw"): return (d[1], True)
        if kind == "free": return (("root", d[1]), True)
        if kind == "wake": return (("woken",), True)
        if kind == "park": return (("woken",), True)
        if kind == "await": return (("await",), True)
        if kind == "wake_cell": return (d[1], True)        # reads the cell AND touches the woken flags: conservatively a write to the cell
        raise EncodingError("access of " + kind)

    def boundary_nodes(self, g):
        """visible nodes that can be the first or the last visible operation of a call"""
        first, last = set(), set()
        def through(nid, seen):
            n = g.nodes[nid]
            if n.kind == "branch":
                r = set()
                for _, c in n.branches:
                    if c not in seen: r |= through(c, seen | {c})
                return r
            return {nid}
        for nid in through(g.root, {g.root}):
            if g.nodes[nid].kind == "vis": first.add(nid)
        for n in g.vis():
            for s in through(n.child, {n.child}):
                m = g.nodes[s]
                if m.kind in ("done", "panic") or (m.kind == "vis" and m.call != n.call):
                    last.add(n.id)
                    if m.kind == "vis": first.add(m.id)
        return first | last

    def dependent(self, ta, na, tb, nb):
        (la, wa), (lb, wb) = self.access[(ta, na.id)], self.access[(tb, nb.id)]
        if self.opts.get("real_time_order") and na.id in self.boundary[ta] and nb.id in self.boundary[tb]: return True
        if la[0] == "root" or lb[0] == "root":
            ra = la[1] if la[0] == "root" else la[0]; rb = lb[1] if lb[0] == "root" else lb[0]
            return ra == rb
        return la == lb and (wa or wb)

    def step(self, k):
        S, T = self.S, self.T
        mem = self.memv[k]
        new_mem = {}
        for key, v in mem.items(): new_mem[key] = list(v) if isinstance(v, list) else v
        new_alive = dict(self.alive[k]); new_woken = list(self.woken[k]); new_freed = dict(self.freed_count[k])
        err_now = []
        vis_flags = [z3.And(self.is_kind(t, k, "vis"), z3.Not(self.blocked(t, k))) for t in range(T)]       # at a visible node and able to run
        done_flags = [z3.Not(vis_flags[t]) for t in range(T)]                                                 # finished, panicked, cut or parked
        ordinary_done = z3.And([done_flags[t] for t in range(T) if not self.after[t]] + [z3.BoolVal(True)])
        alldone = z3.And(done_flags)
        enabled_any = []
        for t, g in enumerate(self.G):
            sel_t = self.sched[k] == t
            can_run = vis_flags[t] if not self.after[t] else z3.And(vis_flags[t], ordinary_done)
            here = z3.And(sel_t, can_run)            # effects happen only when the selected thread is able to run
            newreg = {rv: vs[k] for rv, vs in self.regs[t].items()}
            npc = self.pcs[t][k]
            for n in g.vis():
                at = z3.And(here, self.pcs[t][k] == n.id)
                d = [self.val_at(t, x, k) for x in n.desc]; kind = d[0]
                key = d[1] if kind not in ("free", "wake", "park", "await") else None
                if kind == "wake_cell": key = d[1]
                if key is not None and key[0] in self.alive[k]:
                    err_now.append(z3.And(at, z3.Not(self.alive[k][key[0]])))
                def sel(arr, idx):
                    e = arr[-1]
                    for j in reversed(range(len(arr) - 1)): e = z3.If(idx == j, arr[j], e)
                    return e
                if kind == "aload":
                    newreg[n.rvars[0]] = z3.If(at, mem[key], newreg[n.rvars[0]])
                elif kind in ("afadd", "afsub", "aswap"):
                    newreg[n.rvars[0]] = z3.If(at, mem[key], newreg[n.rvars[0]])
                    nv = {"afadd": lambda: mem[key] + d[2], "afsub": lambda: mem[key] - d[2], "aswap": lambda: d[2]}[kind]()
                    new_mem[key] = z3.If(at, nv, new_mem[key])
                elif kind == "armw":
                    cur = mem[key]; x = d[3]
                    nv = {"fetch_max": lambda: z3.If(z3.UGE(cur, x), cur, x), "fetch_min": lambda: z3.If(z3.ULE(cur, x), cur, x),
                          "fetch_or": lambda: (z3.Or(cur, x) if z3.is_bool(cur) else cur | x), "fetch_and": lambda: (z3.And(cur, x) if z3.is_bool(cur) else cur & x),
                          "fetch_xor": lambda: (z3.Xor(cur, x) if z3.is_bool(cur) else cur ^ x)}[d[2]]()
                    newreg[n.rvars[0]] = z3.If(at, cur, newreg[n.rvars[0]])
                    new_mem[key] = z3.If(at, nv, new_mem[key])
                elif kind == "astore":
                    new_mem[key] = z3.If(at, d[2], new_mem[key])
                elif kind == "acas":
                    ok = mem[key] == d[2]
                    if d[4] and self.opts.get("weak_cas_may_fail"):
                        sp = z3.Bool("spurious_%d_%d_%d" % (t, n.id, k)); ok = z3.And(ok, z3.Not(sp))
                    newreg[n.rvars[0]] = z3.If(at, ok, newreg[n.rvars[0]])
                    newreg[n.rvars[1]] = z3.If(at, mem[key], newreg[n.rvars[1]])
                    new_mem[key] = z3.If(z3.And(at, ok), d[3], new_mem[key])
                elif kind == "pload":
                    if d[2] is None: newreg[n.rvars[0]] = z3.If(at, mem[key], newreg[n.rvars[0]])
                    else:
                        n_el = len(mem[key])
                        err_now.append(z3.And(at, z3.UGE(d[2], z3.BitVecVal(n_el, d[2].size()))))     # out-of-bounds access
                        newreg[n.rvars[0]] = z3.If(at, sel(mem[key], d[2]), newreg[n.rvars[0]])
                elif kind == "pstore":
                    if d[2] is None: new_mem[key] = z3.If(at, d[3], new_mem[key])
                    else:
                        n_el = len(mem[key])
                        err_now.append(z3.And(at, z3.UGE(d[2], z3.BitVecVal(n_el, d[2].size()))))
                        for j in range(n_el): new_mem[key][j] = z3.If(z3.And(at, d[2] == j), d[3], new_mem[key][j])
                elif kind == "free":
                    r = d[1]
                    err_now.append(z3.And(at, z3.Not(self.alive[k][r])))
                    new_alive[r] = z3.If(at, z3.BoolVal(False), new_alive[r])
                    new_freed[r] = z3.If(at, self.freed_count[k][r] + 1, new_freed[r])
                elif kind == "wake":
                    task = d[1]
                    for i in range(self.ntasks):
                        new_woken[i] = z3.If(z3.And(at, task == z3.BitVecVal(i, task.size())), z3.BoolVal(True), new_woken[i])
                elif kind == "wake_cell":
                    cell = sel(mem[key], d[2]) if d[2] is not None else mem[key]
                    err_now.append(z3.And(at, cell == 0))          # waking through a reference to a waker that is no longer there
                    for i in range(self.ntasks):
                        new_woken[i] = z3.If(z3.And(at, cell == z3.BitVecVal(i + 1, cell.size())), z3.BoolVal(True), new_woken[i])
                elif kind == "await":
                    pass
                elif kind == "park":
                    task = d[1]
                    for i in range(self.ntasks):
                        new_woken[i] = z3.If(z3.And(at, task == z3.BitVecVal(i, task.size())), z3.BoolVal(False), new_woken[i])
                else:
                    raise EncodingError("visible op kind " + kind)
                npc = z3.If(at, self.resolve(t, n.child, k + 1), npc)
            for rv, vs in self.regs[t].items(): self.add(vs[k + 1] == newreg[rv])
            self.add(self.pcs[t][k + 1] == npc)
            self.add(z3.Implies(sel_t, z3.Or(can_run, alldone)))
            enabled_any.append(here)
        self.add(z3.ULT(self.sched[k], T) if (1 << _bits(T)) > T else z3.BoolVal(True))
        self.add(z3.Or(z3.Or(enabled_any), alldone))
        self.add(z3.Implies(alldone, self.sched[k] == 0))
        # stutter elimination: a scheduled step must change a pc or the memory (a failed CAS re-evaluated on unchanged memory is not unrolled)
        changed = [self.pcs[t][k + 1] != self.pcs[t][k] for t in range(T)]
        for key, v in new_mem.items():
            if isinstance(v, list): changed += [v[j] != mem[key][j] for j in range(len(v))]
            else: changed.append(v != mem[key])
        if self.opts.get("stutter_when_alone"):
            # a step that changes nothing is allowed only for a thread that is the ONLY one still running: that is exactly a thread
            # spinning on something nobody will change any more (what the progress queries look for); everywhere else it is redundant
            alone = z3.Or([z3.And(self.sched[k] == t, z3.And([done_flags[u] for u in range(T) if u != t] + [z3.BoolVal(True)])) for t in range(T)])
            self.add(z3.Or(z3.Or(changed), alldone, alone))
        elif not self.opts.get("allow_stutter"):
            self.add(z3.Or(z3.Or(changed), alldone))
        # static partial-order reduction: adjacent INDEPENDENT steps only in increasing thread order
        if self.por and k + 1 < S:
            for a in range(T):
                for b in range(a):
                    if self.after[a] or self.after[b]: continue
                    deps = []
                    for na in self.G[a].vis():
                        for nb in self.G[b].vis():
                            if self.dependent(a, na, b, nb):
                                deps.append(z3.And(self.pcs[a][k] == na.id, self.pcs[b][k] == nb.id))
                    self.add(z3.Implies(z3.And(self.sched[k] == a, self.sched[k + 1] == b, vis_flags[a], vis_flags[b]),
                                        z3.Or(deps) if deps else z3.BoolVal(False)))
        for key, v in new_mem.items():
            if isinstance(v, list):
                for j in range(len(v)): self.add(self.memv[k + 1][key][j] == v[j])
            else: self.add(self.memv[k + 1][key] == v)
        for r in self.heap_roots:
            self.add(self.alive[k + 1][r] == new_alive[r]); self.add(self.freed_count[k + 1][r] == new_freed[r])
        for i in range(self.ntasks): self.add(self.woken[k + 1][i] == new_woken[i])
        self.add(self.err[k + 1] == z3.Or([self.err[k]] + err_now))

    # ---------------------------------------------------------------- observations
    def all_done(self):
        return z3.And([self.is_kind(t, self.S, "done") for t in range(self.T)])

    def any_panic(self):
        """a thread panicked -- or reached a path the query assumed unreachable (fail closed: that is reported, never ignored)"""
        bad = [self.is_kind(t, self.S, "panic") for t in range(self.T)]
        for t, g in enumerate(self.G):
            ids = [n.id for n in g.nodes if n.kind == "cut" and getattr(n, "assumed", False)]
            if ids: bad.append(z3.Or([self.pcs[t][self.S] == i for i in ids]))
        return z3.Or(bad)

    def results(self, t, extract):
        """per call of thread t: dict of scalar terms, merged over the thread's done nodes. extract(call_index, value) -> dict"""
        g = self.G[t]; S = self.S
        dn = [n for n in g.nodes if n.kind == "done"]
        out = []
        for j in range(len(g.calls)):
            merged = None
            for n in dn:
                d = extract(j, self.val_at(t, n.results[j], S))
                if merged is None: merged = dict(d)
                else:
                    for kx in merged: merged[kx] = z3.If(self.pcs[t][S] == n.id, d[kx], merged[kx])
            out.append(merged or {})
        return out

    def call_times(self, t):
        """(first, last) step index terms of the visible operations of each call of thread t (valid when the thread is done)"""
        g = self.G[t]; S = self.S; w = _bits(S + 2)
        res = []
        for j in range(len(g.calls)):
            ids = [n.id for n in g.vis() if n.call == j]
            def inv(k):
                return z3.And(self.sched[k] == t, z3.Or([self.pcs[t][k] == i for i in ids])) if ids else z3.BoolVal(False)
            f = z3.BitVecVal(S + 1, w)
            for k in reversed(range(S)): f = z3.If(inv(k), z3.BitVecVal(k, w), f)
            l = z3.BitVecVal(0, w)
            for k in range(S): l = z3.If(inv(k), z3.BitVecVal(k, w), l)
            res.append((f, l))
        return res

    # ---------------------------------------------------------------- solving
    def to_cnf(self, extra, path, plain=False):
        g = z3.Goal()
        g.add(*self.asserts); g.add(*extra)
        t0 = time.time()
        if plain:
            # equivalence-preserving chain only: the named Boolean scheduler bits keep their meaning, so a SAT model can be decoded
            sub = z3.Then("simplify", "propagate-values", "simplify", "bit-blast", "tseitin-cnf")(g)[0]
        else:
            sub = z3.Then("simplify", "propagate-values", "solve-eqs", "elim-uncnstr", "simplify", "bit-blast", "tseitin-cnf")(g)[0]
        # fail closed: every variable of the CNF must be a propositional CONSTANT (ours, or a Tseitin auxiliary `k!n`): an interpreted
        # atom left over by the bit-blaster would be exported as a free variable, i.e. silently weaken the query. The name table of
        # the DIMACS export lists the declaration name of every atom, so an interpreted atom shows up under its operator name.
        txt = sub.dimacs(True)
        for mname in _NAME_RE.finditer(txt):
            nm = mname.group(1)
            if nm in _INTERPRETED or not _IDENT_RE.match(nm):
                raise EncodingError("bit-blasting left an interpreted atom in the CNF: " + nm)
        open(path, "w").write(txt)
        head = txt.split("\n", 1)[0].split()
        return {"vars": int(head[2]) if len(head) > 3 else 0, "clauses": int(head[3]) if len(head) > 3 else 0, "encode_s": time.time() - t0,
                "trivial": "unsat" if (len(sub) == 1 and z3.is_false(sub[0])) else ("sat" if len(sub) == 0 else None), "names": txt}

    def decide(self, extra, workdir, name, timeout_s):
        """-> dict(verdict='unsat'|'sat'|'unknown', vars, clauses, solver_s, sched=[...] when sat)"""
        os.makedirs(workdir, exist_ok=True)
        path = os.path.join(workdir, name + ".cnf")
        info = self.to_cnf(extra, path)
        names = info.pop("names")
        if info["trivial"]:
            return dict(info, verdict=info["trivial"], solver_s=0.0, model_bits={})
        t0 = time.time()
        out = self.race(path, timeout_s)
        if out is None:
            return dict(info, verdict="unknown", solver_s=time.time() - t0, why="kissat timeout %ds" % timeout_s)
        dt = time.time() - t0
        # second solver (thorough tier): the same CNF is given to z3's own SAT core under a short cap; a DISAGREEMENT is fatal
        # (verdict unknown), a cross-checker that merely runs out of time is recorded and ignored
        xc = None
        if os.environ.get("VERIF_M_CROSSCHECK") == "1" and (info.get("clauses") or 0) <= 1500000:
            try:
                z = subprocess.run(["z3", "-T:90", "-dimacs", path], stdout=subprocess.PIPE, stderr=subprocess.STDOUT, text=True, timeout=120).stdout
                xc = "unsat" if "s UNSATISFIABLE" in z or z.strip().startswith("unsat") or "\nunsat" in z else ("sat" if "s SATISFIABLE" in z or z.strip().startswith("sat") or "\nsat" in z else "timeout")
            except Exception:
                xc = "timeout"
            mine = "unsat" if "s UNSATISFIABLE" in out else ("sat" if "s SATISFIABLE" in out else None)
            if xc in ("sat", "unsat") and mine and xc != mine:
                return dict(info, verdict="unknown", solver_s=dt, why="solver disagreement: kissat says %s, z3 says %s" % (mine, xc))
            info["crosscheck_z3"] = xc
        if "s UNSATISFIABLE" in out:
            return dict(info, verdict="unsat", solver_s=dt)
        if "s SATISFIABLE" in out:
            # decode: re-encode without variable-eliminating tactics (models of the reduced formula do not carry over) and solve again
            path2 = os.path.join(workdir, name + "-plain.cnf")
            info2 = self.to_cnf(extra, path2, plain=True)
            names = info2.pop("names")
            out = self.race(path2, timeout_s)
            if out is None:
                return dict(info, verdict="unknown", solver_s=time.time() - t0, why="kissat timeout on the decodable re-encoding")
            if "s SATISFIABLE" not in out:
                return dict(info, verdict="unknown", solver_s=time.time() - t0, why="reduced and plain encodings disagree (sat vs %s)" % out[-60:])
            dt = time.time() - t0
            lits = set()
            for l in out.splitlines():
                if l.startswith("v "): lits.update(int(x) for x in l[2:].split())
            named = {}
            for l in names.splitlines():
                if l.startswith("c "):
                    _, num, nm = l.split(" ", 2)
                    named[nm] = int(num) in lits
            return dict(info, verdict="sat", solver_s=dt, model_bits=named)
        return dict(info, verdict="unknown", solver_s=dt, why="kissat: " + out[-200:])

    def race(self, path, timeout_s):
        """portfolio of two kissat configurations on the same CNF; the first verdict wins"""
        cfgs = [["kissat", "-q", path], ["kissat", "-q", "--unsat", path], ["kissat", "-q", "--sat", path]]
        if os.environ.get("VERIF_MIR_PORTFOLIO", "1") == "0": cfgs = cfgs[:1]
        # (stdout goes to files: a satisfying assignment is larger than a pipe buffer, a piped kissat would block forever)
        outs = [open("%s.out%d" % (path, i), "w+") for i in range(len(cfgs))]
        procs = [subprocess.Popen(c, stdout=outs[i], stderr=subprocess.STDOUT, text=True) for i, c in enumerate(cfgs)]
        t0 = time.time(); out = None
        try:
            while time.time() - t0 < timeout_s:
                for i, p in enumerate(procs):
                    if p.poll() is not None:
                        outs[i].flush(); outs[i].seek(0); o = outs[i].read()
                        if "s UNSATISFIABLE" in o or "s SATISFIABLE" in o: out = o; break
                if out is not None or all(p.poll() is not None for p in procs): break
                time.sleep(0.2)
        finally:
            for p in procs:
                if p.poll() is None: p.kill()
            for f in outs:
                try: f.close(); os.remove(f.name)
                except Exception: pass
        return out

    def model_for(self, extra, model_bits, timeout_ms=120000):
        """re-solves natively in z3 with the schedule found by kissat pinned (instant: the run is then deterministic up to inputs)"""
        s = z3.SolverFor("QF_BV")
        s.set("timeout", timeout_ms)
        s.add(*self.asserts); s.add(*extra)
        for k in range(self.S):
            for i, b in enumerate(self.sched_bits[k]):
                nm = "sch%d_b%d" % (k, i)
                if nm in model_bits: s.add(b == z3.BoolVal(model_bits[nm]))
        r = s.check()
        if r != z3.sat: return None
        return s.model()

    def decode_schedule(self, m):
        sched = []
        for k in range(self.S):
            t = m.eval(self.sched[k], model_completion=True).as_long()
            pcs = [m.eval(self.pcs[x][k], model_completion=True).as_long() for x in range(self.T)]
            if t >= self.T: continue
            n = self.G[t].nodes[pcs[t]] if pcs[t] < len(self.G[t].nodes) else None
            if n is None or n.kind != "vis": continue
            d = n.desc
            loc = ""
            if d[0] not in ("free", "wake", "park", "await"): loc = "%s.%s" % (d[1][0], ".".join(str(x) for x in d[1][1]))
            sched.append({"step": k, "thread": t, "call": n.call, "op": d[0], "loc": loc})
        return sched
