"""Thread programs, initial states and oracles of the MIR-BMC queries (engine M).
Everything about the CODE comes from the MIR (interp/graph/bmc); this file only says which API calls each thread makes,
what the symbolic pre-state is and which formula over results / final state is the violation."""
import os, re, time, json, itertools
import z3
from mirparse import parse, Index, EncodingError
from interp import Interp, Ptr, LRef, Agg, Enum, UNIT, BV, opt_some, opt_none
from graph import build_thread
from bmc import BMC
import layout

POISON = 0xDEAD0000


class World:
    """shared objects of one query: memory layout + instantiation"""

    def __init__(self, index, type_files, consts, types):
        self.index = index; self.type_files = type_files
        self.consts = dict(consts); self.types = dict(types)
        self.redirect = dict(getattr(index, "redirect", {}))
        self.mem = {}
        self.heap_roots = []
        self.constraints = []
        self.inputs = {}

    def fields(self, type_name):
        return layout.struct_fields(self.type_files[type_name], type_name)

    def decl(self, root, path, kind, sort, init=None, n=None, value=None):
        d = {"kind": kind, "sort": sort}
        if kind == "array": d["n"] = n; d["init"] = init
        elif kind == "frozen": d["value"] = value
        else: d["init"] = init
        self.mem[(root, tuple(path))] = d

    def sym(self, name, w=32):
        v = z3.BitVec(name, w); self.inputs[name] = v; return v

    # ---- object constructors (pre-states) ------------------------------------------------------------
    def atomic_move(self, root, base, n, origin, content, poison=POISON):
        """AtomicMove<u32, n> at (root, base): quiescent state holding `content` (list of terms, oldest first) starting at sequence `origin`"""
        f = self.fields("AtomicMove")
        ix = {nm: i for i, nm in enumerate(f)}
        k = len(content)
        u32 = z3.BitVecSort(32)
        self.decl(root, base + (ix["head"],), "atomic", u32, origin)
        self.decl(root, base + (ix["dequeuer_head"],), "atomic", u32, origin)
        self.decl(root, base + (ix["tail"],), "atomic", u32, origin + k)
        self.decl(root, base + (ix["enqueuer_tail"],), "atomic", u32, origin + k)
        cells = []
        for j in range(n):
            c = BV(32, poison + j)
            for i, v in enumerate(content):
                c = z3.If(z3.URem(origin + i, BV(32, n)) == j, v, c)
            cells.append(c)
        self.decl(root, base + (ix["buffer"], "*"), "array", u32, cells, n=n)

    def full_sync_move(self, root, base, n, origin, content, poison=POISON):
        f = self.fields("FullSyncMove")
        ix = {nm: i for i, nm in enumerate(f)}
        k = len(content); u32 = z3.BitVecSort(32)
        self.decl(root, base + (ix["head"],), "plain", u32, origin)
        self.decl(root, base + (ix["tail"],), "plain", u32, origin + k)
        self.decl(root, base + (ix["concurrency_guard"],), "atomic", z3.BoolSort(), z3.BoolVal(False))
        cells = []
        for j in range(n):
            c = BV(32, poison + j)
            for i, v in enumerate(content):
                c = z3.If(z3.URem(origin + i, BV(32, n)) == j, v, c)
            cells.append(c)
        self.decl(root, base + (ix["buffer"], "*"), "array", u32, cells, n=n)

    def pool_allocator(self, root, base, n, free_ids, origin, container="AtomicMove", pool_init=None):
        """OgreArrayPoolAllocator<u32, Container<u32,n>, n>: free list holds `free_ids` (terms), pool cells hold pool_init"""
        f = self.fields("OgreArrayPoolAllocator")
        ix = {nm: i for i, nm in enumerate(f)}
        if container == "AtomicMove": self.atomic_move(root, base + (ix["free_list"],), n, origin, free_ids, poison=0xF0)
        else: self.full_sync_move(root, base + (ix["free_list"],), n, origin, free_ids, poison=0xF0)
        cells = pool_init or [BV(32, POISON + 0x100 + j) for j in range(n)]
        self.decl(root, base + (ix["pool"], "*"), "array", z3.BitVecSort(32), cells, n=n)

    def interp(self):
        cfg = {"consts": self.consts, "types": self.types, "mem": self.mem, "type_files": self.type_files, "needs_drop": False}
        cfg.update(getattr(self, "cfg_extra", {}))
        it = Interp(self.index, cfg)
        it.redirect = dict(getattr(self, "redirect", {}))
        return it


def fn_of(world, type_name, method):
    return world.index.method(method, world.type_files[type_name], type_name)


# ---- result extractors ---------------------------------------------------------------------------------
def ex_publish_movable(v):
    """(Option<NonZeroU32>, Option<SlotType>) -> accepted?"""
    return {"ok": v.fields[0].discr == 1}


def ex_option_u32(v):
    val = v.payloads[1][0] if 1 in v.payloads else BV(32, 0)
    return {"some": v.discr == 1, "val": val}


def ex_unit(v):
    return {}


def ex_bool(v):
    return {"ok": v}


# ---- generic linearizability (permutation encoding, DESIGN 2.3) -------------------------------------------
def linearizable(ops, spec_init, spec_step):
    """ops: list of dicts {thread, first, last, kind, arg, res}; returns a formula that is TRUE iff some total order that respects
    the real-time order (op A before op B when A.last < B.first) and program order replays on the sequential spec with exactly
    the recorded results. spec_step(state, op) -> (ok_formula, new_state)"""
    n = len(ops)
    by_thread = {}
    for i, o in enumerate(ops): by_thread.setdefault(o["thread"], []).append(i)
    def interleavings(seqs):
        seqs = [s for s in seqs if s]
        if not seqs: yield []; return
        for i, s in enumerate(seqs):
            rest = seqs[:i] + [s[1:]] + seqs[i + 1:]
            for tail in interleavings(rest): yield [s[0]] + tail
    alts = []
    for perm in interleavings(list(by_thread.values())):
        conds = []
        for a in range(n):
            for b in range(a + 1, n):
                x, y = perm[a], perm[b]          # x placed before y: y must not precede x in real time
                if ops[x]["thread"] != ops[y]["thread"]:
                    c = z3.Not(z3.ULT(ops[y]["last"], ops[x]["first"]))
                    if "present" in ops[x] or "present" in ops[y]:      # calls without any visible step impose no real-time order
                        c = z3.Or(c, z3.Not(ops[x].get("present", z3.BoolVal(True))), z3.Not(ops[y].get("present", z3.BoolVal(True))))
                    conds.append(c)
        st = spec_init
        for i in perm:
            ok, st = spec_step(st, ops[i])
            conds.append(ok)
        alts.append(z3.And(conds))
    return z3.Or(alts), len(alts)


def fifo_spec(n_cap):
    """bounded FIFO over a symbolic list: state = (list of value terms (max cap + pending), length term)"""
    def step(st, op):
        items, ln = st            # items: python list of terms (fixed max length), ln: BV8 length
        maxlen = len(items)
        if op["kind"] == "send":
            room = z3.ULT(ln, BV(8, n_cap))
            ok = op["res"]["ok"] == room
            new_items = [z3.If(z3.And(room, ln == j), op["arg"], items[j]) for j in range(maxlen)]
            return ok, (new_items, z3.If(room, ln + 1, ln))
        if op["kind"] == "recv":
            nonempty = ln != 0
            ok = z3.And(op["res"]["some"] == nonempty, z3.Implies(nonempty, op["res"]["val"] == items[0]))
            shifted = [z3.If(nonempty, items[j + 1] if j + 1 < maxlen else items[j], items[j]) for j in range(maxlen)]
            return ok, (shifted, z3.If(nonempty, ln - 1, ln))
        raise EncodingError("fifo spec op " + op["kind"])
    return step


# =========================================================================================================
# pseudo-MIR helpers (harness code written in MIR syntax; `@file:method` names a crate function by source file)
PRELUDE = """
fn __verif::write_u32(_1: &mut u32, _2: u32) -> () {
    let mut _0: ();

    bb0: {
        (*_1) = copy _2;
        return;
    }
}

fn __verif::spin_lock(_1: &Atomic<bool>) -> () {
    let mut _0: ();
    let mut _2: Result<bool, bool>;
    let mut _3: isize;
    let mut _4: std::sync::atomic::Ordering;
    let mut _5: std::sync::atomic::Ordering;

    bb0: {
        _4 = std::sync::atomic::Ordering::Acquire;
        _5 = std::sync::atomic::Ordering::Relaxed;
        _2 = std::sync::atomic::Atomic::<bool>::compare_exchange(copy _1, const false, const true, move _4, move _5) -> [return: bb1, unwind continue];
    }

    bb1: {
        _3 = discriminant(_2);
        switchInt(move _3) -> [0: bb2, otherwise: bb0];
    }

    bb2: {
        return;
    }
}

fn __verif::fetch_update(_1: &Atomic<u32>, _2: std::sync::atomic::Ordering, _3: std::sync::atomic::Ordering, _4: F) -> Result<u32, u32> {
    let mut _0: Result<u32, u32>;
    let mut _5: u32;
    let mut _6: Option<u32>;
    let mut _7: u32;
    let mut _8: Result<u32, u32>;
    let mut _9: &mut F;
    let mut _10: (u32,);
    let mut _11: isize;
    let mut _12: isize;

    bb0: {
        _5 = std::sync::atomic::Atomic::<u32>::load(copy _1, copy _3) -> [return: bb1, unwind continue];
    }

    bb1: {
        _9 = &mut _4;
        _10 = (copy _5,);
        _6 = <F as FnMut<(u32,)>>::call_mut(copy _9, move _10) -> [return: bb2, unwind continue];
    }

    bb2: {
        _11 = discriminant(_6);
        switchInt(move _11) -> [0: bb5, otherwise: bb3];
    }

    bb3: {
        _7 = copy ((_6 as Some).0: u32);
        _8 = std::sync::atomic::Atomic::<u32>::compare_exchange_weak(copy _1, copy _5, copy _7, copy _2, copy _3) -> [return: bb4, unwind continue];
    }

    bb4: {
        _12 = discriminant(_8);
        switchInt(move _12) -> [0: bb6, otherwise: bb7];
    }

    bb5: {
        _0 = Result::<u32, u32>::Err(copy _5);
        return;
    }

    bb6: {
        _0 = Result::<u32, u32>::Ok(copy _5);
        return;
    }

    bb7: {
        _5 = copy ((_8 as Err).0: u32);
        goto -> bb1;
    }
}

fn __verif::read_u32(_1: &u32) -> u32 {
    let mut _0: u32;

    bb0: {
        _0 = copy (*_1);
        return;
    }
}
"""


class Ctx:
    """everything a query family needs: parsed MIR (+ prelude), type -> file map, work dir, tier"""

    def __init__(self, mir_path, tier, workdir):
        txt = open(mir_path).read()
        self.fns = parse(txt + "\n" + PRELUDE)
        self.index = Index(self.fns)
        self.index.redirect = {}
        self.type_files = layout.scan_types()
        self.tier = tier
        self.workdir = workdir
        self.redirect = {}
        if self.lock_is_plain_spin():
            self.redirect["ogre_sync::lock"] = self.fns["__verif::spin_lock"]
            self.index.redirect = self.redirect

    def helper(self, name):
        return self.fns["__verif::" + name]

    def lock_is_plain_spin(self):
        """true iff ogre_sync::lock's MIR is nothing but attempts of compare_exchange(_weak)(false -> true) on its argument, result
        tests and spin hints: then the ten-attempt ladder + loop is encoded as ONE retrying CAS (same semantics, 10x smaller graphs).
        Any other shape (a mutated lock) is encoded as written."""
        f = [x for n, x in self.fns.items() if n.endswith("ogre_sync::lock")]
        if len(f) != 1: return False
        ncas = 0
        for lines in f[0].blocks.values():
            for l in lines:
                if " -> [return:" not in l and not re.search(r"\) -> unwind", l): continue
                if re.search(r"Atomic::<bool>::compare_exchange(_weak)?\(copy _1, const false, const true,", l): ncas += 1; continue
                if re.search(r"Result::<bool, bool>::is_(ok|err)\(", l) or "spin_loop()" in l: continue
                return False
        return ncas >= 1


def solve(name, b, violation, witness, timeout_s, workdir, meta):
    """decides the violation query and the reachability witness; returns the result record (without replay)"""
    t0 = time.time()
    r = b.decide(violation, workdir, name + "-viol", timeout_s)
    rec = dict(meta)
    rec.update({"name": name, "steps": b.S, "cnf_vars": r.get("vars"), "cnf_clauses": r.get("clauses"), "solver_s": round(r.get("solver_s", 0.0), 2), "crosscheck_z3": r.get("crosscheck_z3"),
                "encode_s": round(r.get("encode_s", 0.0), 2), "queries": 0, "witnesses": 0})
    if r["verdict"] == "unknown":
        rec.update(verdict="inconclusive", why=r.get("why", "solver gave no verdict")); return rec, None
    if r["verdict"] == "sat":
        m = b.model_for(violation, r.get("model_bits", {}))
        rec.update(verdict="violation-candidate")
        return rec, m
    rec["queries"] = 1
    wres = b.decide(witness, workdir, name + "-wit", timeout_s)
    rec["solver_s"] = round(rec["solver_s"] + wres.get("solver_s", 0.0), 2)
    if wres["verdict"] != "sat":
        rec.update(verdict="inconclusive", why="reachability witness is %s: the violation query may be vacuous (step bound too small?)" % wres["verdict"]); return rec, None
    m = b.model_for(witness, wres.get("model_bits", {}))
    rec.update(verdict="holds", witnesses=1, witness_trace=b.decode_schedule(m) if m is not None else [])
    return rec, None

PRELUDE += """
fn __verif::zc_recv_atomic(_1: &AtomicZeroCopy) -> Option<u32> {
    let mut _0: Option<u32>;
    let mut _2: Option<(&u32, u32)>;
    let mut _3: isize;
    let mut _4: &u32;
    let mut _5: u32;
    let mut _6: u32;
    let mut _7: ();

    bb0: {
        _2 = @src/ogre_std/ogre_queues/atomic/atomic_zero_copy.rs:consume_leaking(copy _1) -> [return: bb1, unwind continue];
    }

    bb1: {
        _3 = discriminant(_2);
        switchInt(move _3) -> [0: bb2, otherwise: bb3];
    }

    bb2: {
        _0 = Option::<u32>::None;
        return;
    }

    bb3: {
        _4 = copy (((_2 as Some).0: (&u32, u32)).0: &u32);
        _5 = copy (((_2 as Some).0: (&u32, u32)).1: u32);
        _6 = copy (*_4);
        _7 = @src/ogre_std/ogre_queues/atomic/atomic_zero_copy.rs:release_leaked_id(copy _1, copy _5) -> [return: bb4, unwind continue];
    }

    bb4: {
        _0 = Option::<u32>::Some(copy _6);
        return;
    }
}

fn __verif::zc_recv_full_sync(_1: &FullSyncZeroCopy) -> Option<u32> {
    let mut _0: Option<u32>;
    let mut _2: Option<(&u32, u32)>;
    let mut _3: isize;
    let mut _4: &u32;
    let mut _5: u32;
    let mut _6: u32;
    let mut _7: ();

    bb0: {
        _2 = @src/ogre_std/ogre_queues/full_sync/full_sync_zero_copy.rs:consume_leaking(copy _1) -> [return: bb1, unwind continue];
    }

    bb1: {
        _3 = discriminant(_2);
        switchInt(move _3) -> [0: bb2, otherwise: bb3];
    }

    bb2: {
        _0 = Option::<u32>::None;
        return;
    }

    bb3: {
        _4 = copy (((_2 as Some).0: (&u32, u32)).0: &u32);
        _5 = copy (((_2 as Some).0: (&u32, u32)).1: u32);
        _6 = copy (*_4);
        _7 = @src/ogre_std/ogre_queues/full_sync/full_sync_zero_copy.rs:release_leaked_id(copy _1, copy _5) -> [return: bb4, unwind continue];
    }

    bb4: {
        _0 = Option::<u32>::Some(copy _6);
        return;
    }
}
"""


# ---------------------------------------------------------------------------------------------------------
# FIFO-like objects: the two raw rings and the two zero-copy wrappers
def fifo_object(ctx, kind, N, k, needs_drop=False):
    """returns (world, self_ptr, ops) with the object pre-filled with k symbolic events (k concrete, 0..N)"""
    consts = {"BUFFER_SIZE": N, "POOL_SIZE": N}
    types = {"SlotType": "u32", "DataType": "u32"}
    if kind in ("AtomicZeroCopy",): types.update({"OgreAllocatorType": "OgreArrayPoolAllocator", "ContainerType": "AtomicMove"})
    if kind in ("FullSyncZeroCopy",): types.update({"OgreAllocatorType": "OgreArrayPoolAllocator", "ContainerType": "FullSyncMove"})
    w = World(ctx.index, ctx.type_files, consts, types)
    if needs_drop: w.cfg_extra = {"needs_drop": True}      # the pooled payload type has a destructor (mem::needs_drop::<DataType>() is true)
    origin = w.sym("origin")
    pre = [w.sym("pre%d" % i) for i in range(k)]
    q = Ptr("q")
    if kind == "AtomicMove":
        w.atomic_move("q", (), N, origin, pre)
        ops = {"send": (fn_of(w, "AtomicMove", "publish_movable"), ex_publish_movable), "recv": (fn_of(w, "AtomicMove", "consume_movable"), ex_option_u32)}
    elif kind == "FullSyncMove":
        w.full_sync_move("q", (), N, origin, pre)
        ops = {"send": (fn_of(w, "FullSyncMove", "publish_movable"), ex_publish_movable), "recv": (fn_of(w, "FullSyncMove", "consume_movable"), ex_option_u32)}
    elif kind in ("AtomicZeroCopy", "FullSyncZeroCopy"):
        f = w.fields(kind); ix = {nm: i for i, nm in enumerate(f)}
        cont = "AtomicMove" if kind == "AtomicZeroCopy" else "FullSyncMove"
        origin2 = w.sym("origin2")
        # pool slots 0..k-1 hold the pre-filled events (ids queued in order), slots k..N-1 are free
        pool = [pre[j] if j < k else BV(32, POISON + 0x100 + j) for j in range(N)]
        w.pool_allocator("q", (ix["allocator"],), N, [BV(32, j) for j in range(k, N)], origin2, container=cont, pool_init=pool)
        if cont == "AtomicMove": w.atomic_move("q", (ix["queue"],), N, origin, [BV(32, j) for j in range(k)], poison=0xE0)
        else: w.full_sync_move("q", (ix["queue"],), N, origin, [BV(32, j) for j in range(k)], poison=0xE0)
        ops = {"send": (ctx.index.method("publish_movable", ctx.type_files[kind], kind), ex_publish_movable),
               "recv": (ctx.helper("zc_recv_atomic" if kind == "AtomicZeroCopy" else "zc_recv_full_sync"), ex_option_u32)}
    else:
        raise EncodingError("fifo object kind " + kind)
    return w, q, ops, pre


def fifo_query(ctx, name, kind, N, k, threads, oracle, slack, timeout_s, drain=True, opts=None):
    """threads: list of op-name lists, e.g. [['send'], ['send'], ['recv','recv']]"""
    w, q, ops, pre = fifo_object(ctx, kind, N, k, needs_drop=bool((opts or {}).get("needs_drop")))
    it = w.interp()
    graphs = []; payloads = []; plan = []
    for t, prog in enumerate(threads):
        calls = []
        for j, op in enumerate(prog):
            fn, ex = ops[op]
            if op == "send":
                v = w.sym("v%d_%d" % (t, j)); payloads.append(v); calls.append((fn, [q, v], op)); plan.append((t, j, op, v, ex))
            else:
                calls.append((fn, [q], op)); plan.append((t, j, op, None, ex))
        graphs.append(build_thread(it, t, calls, w.mem))
    after = {}
    if drain:
        t = len(threads)
        fn, ex = ops["recv"]
        calls = [(fn, [q], "recv")] * N
        graphs.append(build_thread(it, t, calls, w.mem)); after[t] = True
        for j in range(N): plan.append((t, j, "drain", None, ex))
    S = sum(g.step_budget() for g in graphs) + slack
    o = {"after_all": after, "real_time_order": oracle == "linearizable"}
    if opts: o.update(opts)
    b = BMC(graphs, w.mem, S, o)
    S = b.S
    allv = payloads + pre
    distinct = [allv[i] != allv[j2] for i in range(len(allv)) for j2 in range(i + 1, len(allv))]     # pairwise: `distinct` is not bit-blasted
    for v in allv: distinct.append(z3.Or(z3.ULT(v, BV(32, 0x100)), z3.UGT(v, BV(32, 0xDEADFFFF))) if False else z3.And(z3.UGE(v, BV(32, 0x1000)), z3.ULT(v, BV(32, POISON))))
    res = {}
    for t in range(len(graphs)):
        exs = [p[4] for p in plan if p[0] == t]
        res[t] = b.results(t, lambda j, v, exs=exs: exs[j](v))
    sends = [(t, j, v) for (t, j, op, v, ex) in plan if op == "send"]
    recvs = [(t, j) for (t, j, op, v, ex) in plan if op in ("recv", "drain")]
    # symmetry breaking: threads with identical programs are interchangeable (their payloads are symmetric symbols too) --
    # only schedules in which they take their FIRST step in thread order are explored
    for ta in range(len(threads)):
        for tb in range(ta + 1, len(threads)):
            if threads[ta] == threads[tb]:
                fa = b.call_times(ta)[0][0]; fb = b.call_times(tb)[0][0]
                distinct.append(z3.ULE(fa, fb))
    base = distinct + [b.all_done()]
    meta = {"threads": ["%d:%s" % (i, "+".join(p)) for i, p in enumerate(threads)] + (["drain x%d (runs after all)" % N] if drain else []),
            "bounds": "%s, BUFFER_SIZE=%d, pre-filled %d, origin any u32, steps<=%d, payloads distinct symbolic u32" % (kind, N, k, S), "oracle": oracle}
    if oracle == "exactly_once":
        valid = [(res[t][j]["ok"], v) for (t, j, v) in sends] + [(z3.BoolVal(True), v) for v in pre]
        R = [(res[t][j]["some"], res[t][j]["val"]) for (t, j) in recvs]
        good = []
        for (some, val) in R:      # nothing received that was not accepted
            good.append(z3.Implies(some, z3.Or([z3.And(ok, val == v) for ok, v in valid])))
        for a in range(len(R)):    # nothing twice
            for c in range(a + 1, len(R)):
                good.append(z3.Not(z3.And(R[a][0], R[c][0], R[a][1] == R[c][1])))
        for ok, v in valid:        # nothing lost (the drain ran to completion)
            good.append(z3.Implies(ok, z3.Or([z3.And(some, val == v) for some, val in R])))
        violation = distinct + [z3.Or(z3.And(b.all_done(), z3.Not(z3.And(good))), b.any_panic(), b.err[S])]
        witness = base + [z3.And([ok for ok, v in valid])]
    elif oracle == "linearizable":
        oplist = []
        for (t, j, op, v, ex) in plan:
            f, l = b.call_times(t)[j]
            oplist.append({"thread": t, "first": f, "last": l, "kind": "send" if op == "send" else "recv", "arg": v, "res": res[t][j]})
        # relaxed capacity rule of the statement: a rejection is explained if  len + (calls in progress during the call) >= N
        def overlap(a, c): return z3.And(z3.Not(z3.ULT(a["last"], c["first"])), z3.Not(z3.ULT(c["last"], a["first"])))
        for a in oplist:
            cnt = BV(8, 0)
            for c in oplist:
                if c is a or c["thread"] == a["thread"]: continue
                cnt = cnt + z3.If(overlap(a, c), BV(8, 1), BV(8, 0))
            a["inprogress"] = cnt
        maxlen = N + len(sends)
        def step(st, op):
            items, ln = st
            if op["kind"] == "send":
                room = z3.ULT(ln, BV(8, N))
                accepted = op["res"]["ok"]
                ok = z3.If(accepted, room, z3.UGE(ln + op["inprogress"], BV(8, N)))
                new_items = [z3.If(z3.And(accepted, ln == jj), op["arg"], items[jj]) for jj in range(maxlen)]
                return ok, (new_items, z3.If(accepted, ln + 1, ln))
            nonempty = ln != 0
            ok = z3.And(op["res"]["some"] == nonempty, z3.Implies(nonempty, op["res"]["val"] == items[0]))
            shifted = [z3.If(nonempty, items[jj + 1] if jj + 1 < maxlen else items[jj], items[jj]) for jj in range(maxlen)]
            return ok, (shifted, z3.If(nonempty, ln - 1, ln))
        init = ([pre[i] if i < k else BV(32, 0) for i in range(maxlen)], BV(8, k))
        lin, nperm = linearizable(oplist, init, step)
        meta["interleavings_of_spec"] = nperm
        violation = distinct + [z3.Or(z3.And(b.all_done(), z3.Not(lin)), b.any_panic(), b.err[S])]
        witness = base
    else:
        raise EncodingError("oracle " + oracle)
    meta["functions"] = sorted(set(x.split(">::")[-1] + " @" + (re.search(r"impl at (src/[^:]*)", x).group(1) if "impl at" in x else "") for x in it.functions_used))
    meta["intrinsics"] = sorted(it.intrinsics_used)
    rec, model = solve(name, b, violation, witness, timeout_s, ctx.workdir, meta)
    if model is not None:
        rec["trace"] = b.decode_schedule(model)
        rec["inputs"] = {nm: model.eval(v, model_completion=True).as_long() for nm, v in w.inputs.items()}
        rec["results"] = {"%d.%d" % (t, j): {kx: str(model.eval(vx, model_completion=True)) for kx, vx in res[t][j].items()} for t in res for j in range(len(res[t]))}
        rec["replay_spec"] = {"object": kind, "N": N, "prefill": k, "threads": threads, "drain": N if drain else 0}
        # ---- replay against the real code
        import replay
        inp = rec["inputs"]
        progs = []
        for t, prog in enumerate(threads):
            progs.append([("send:%d" % inp["v%d_%d" % (t, j)]) if op == "send" else op for j, op in enumerate(prog)])
        prefill_vals = [inp["pre%d" % i] for i in range(k)]
        origins = [inp["origin"], inp.get("origin2", inp["origin"])]
        if kind in ("AtomicZeroCopy", "FullSyncZeroCopy"): origins = [inp.get("origin2", 0), inp["origin"]]     # creation order: allocator's free list first, then the queue
        segs = replay.segments_from_trace(rec["trace"], skip_threads=(len(threads),) if drain else ())
        rkind = kind + ("Drop" if (opts or {}).get("needs_drop") and kind.endswith("ZeroCopy") else "")
        found, why, tried = replay.search(rkind, N, origins, prefill_vals, progs, ["drain"] * N if drain else [], segs,
                                          replay.fifo_symptom(oracle, N, prefill_vals))
        rec["native_runs"] = tried
        if found:
            rec.update(verdict="violation", symptom=found["symptom"], replayed=True, native_history=found["history"]["events"], native_segments=found["segments"])
        else:
            rec.update(verdict="inconclusive", why="model counterexample did not reproduce natively: " + why)
    return rec


# =========================================================================================================
# C13: the bounded pool allocator (linearizable bag of slot ids; references = pool slots)
PRELUDE += """
fn __verif::dealloc_opt(_1: &OgreArrayPoolAllocator, _2: Option<(&mut u32, u32)>) -> () {
    let mut _0: ();
    let mut _3: isize;
    let mut _4: u32;

    bb0: {
        _3 = discriminant(_2);
        switchInt(move _3) -> [0: bb2, otherwise: bb1];
    }

    bb1: {
        _4 = copy (((_2 as Some).0: (&mut u32, u32)).1: u32);
        _0 = @src/ogre_std/ogre_alloc/ogre_array_pool_allocator.rs:dealloc_id(copy _1, copy _4) -> [return: bb2, unwind continue];
    }

    bb2: {
        return;
    }
}

fn __verif::dealloc_ref_opt(_1: &OgreArrayPoolAllocator, _2: Option<(&mut u32, u32)>) -> () {
    let mut _0: ();
    let mut _3: isize;
    let mut _4: &mut u32;
    let mut _5: &u32;

    bb0: {
        _3 = discriminant(_2);
        switchInt(move _3) -> [0: bb2, otherwise: bb1];
    }

    bb1: {
        _4 = copy (((_2 as Some).0: (&mut u32, u32)).0: &mut u32);
        _5 = &(*_4);
        _0 = @src/ogre_std/ogre_alloc/ogre_array_pool_allocator.rs:dealloc_ref(copy _1, copy _5) -> [return: bb2, unwind continue];
    }

    bb2: {
        return;
    }
}
"""


def ex_alloc(v):
    if 1 in v.payloads:
        tup = v.payloads[1][0]
        ref, idv = tup.fields[0], tup.fields[1]
        refidx = ref.idx if isinstance(ref, Ptr) and ref.idx is not None else BV(64, 0xFFFF)
        return {"some": v.discr == 1, "id": idv, "refidx": refidx}
    return {"some": v.discr == 1, "id": BV(32, 0), "refidx": BV(64, 0)}


def alloc_query(ctx, name, container, N, owned, threads, slack, timeout_s):
    """`owned[t]` = number of ids thread t holds at the start (they are 0.., in thread order); the remaining ids are free.
    thread ops: 'alloc', 'free_own<k>' (dealloc_id of the k-th initially owned id), 'free_last' (dealloc_id of what the thread's
    most recent alloc returned, skipped if that alloc failed), 'free_last_ref' (same through dealloc_ref)"""
    consts = {"BUFFER_SIZE": N, "POOL_SIZE": N}
    types = {"SlotType": "u32", "DataType": "u32", "ContainerType": container}
    w = World(ctx.index, ctx.type_files, consts, types)
    origin = w.sym("origin")
    nown = sum(owned)
    free_ids = [w.sym("free%d" % i) for i in range(N - nown)]
    own_ids = [w.sym("own%d" % i) for i in range(nown)]
    allids = free_ids + own_ids
    w.pool_allocator("a", (), N, free_ids, origin, container=container)
    it = w.interp()
    a = Ptr("a")
    f_alloc = ctx.index.method("alloc_ref", ctx.type_files["OgreArrayPoolAllocator"], "OgreArrayPoolAllocator")
    f_dealloc = ctx.index.method("dealloc_id", ctx.type_files["OgreArrayPoolAllocator"], "OgreArrayPoolAllocator")
    graphs = []; plan = []
    base = 0
    for t, prog in enumerate(threads):
        calls = []; last_alloc = None
        for j, op in enumerate(prog):
            if op == "alloc":
                calls.append((f_alloc, [a], op)); plan.append((t, j, "alloc", None)); last_alloc = j
            elif op.startswith("free_own"):
                idt = own_ids[base + int(op[8:])]
                calls.append((f_dealloc, [a, idt], op)); plan.append((t, j, "free", idt))
            elif op in ("free_last", "free_last_ref"):
                jj = last_alloc
                calls.append((ctx.helper("dealloc_opt" if op == "free_last" else "dealloc_ref_opt"), [a, (lambda res, jj=jj: res[jj])], op)); plan.append((t, j, "free_last", jj))
            else: raise EncodingError("alloc op " + op)
        graphs.append(build_thread(it, t, calls, w.mem))
        base += owned[t]
    S = sum(g.step_budget() for g in graphs) + slack
    b = BMC(graphs, w.mem, S, {"real_time_order": True})
    pre = [z3.ULT(x, BV(32, N)) for x in allids] + [allids[i] != allids[j] for i in range(len(allids)) for j in range(i + 1, len(allids))]
    res = {}
    for t in range(len(graphs)):
        kinds = [p[2] for p in plan if p[0] == t]
        res[t] = b.results(t, lambda j, v, kinds=kinds: ex_alloc(v) if kinds[j] == "alloc" else {})
    oplist = []
    for (t, j, kind, x) in plan:
        f, l = b.call_times(t)[j]
        o = {"thread": t, "first": f, "last": l, "kind": kind, "res": res[t][j]}
        if kind == "free": o["id"] = x
        if kind == "free_last":
            o["id"] = res[t][x]["id"]; o["doit"] = res[t][x]["some"]; o["present"] = res[t][x]["some"]
        oplist.append(o)
    def bit(idv): return z3.ZeroExt(0, (BV(8, 1) << z3.Extract(7, 0, idv)))
    def step(free, op):
        if op["kind"] == "alloc":
            r = op["res"]
            has = (free & bit(r["id"])) != 0
            ok = z3.If(r["some"], z3.And(z3.ULT(r["id"], BV(32, N)), has, r["refidx"] == z3.ZeroExt(32, r["id"])), free == 0)
            return ok, z3.If(r["some"], free & ~bit(r["id"]), free)
        if op["kind"] == "free":
            ok = (free & bit(op["id"])) == 0
            return ok, free | bit(op["id"])
        doit = op["doit"]
        ok = z3.Implies(doit, (free & bit(op["id"])) == 0)
        return ok, z3.If(doit, free | bit(op["id"]), free)
    free0 = BV(8, 0)
    for x in free_ids: free0 = free0 | bit(x)
    lin, nperm = linearizable(oplist, free0, step)
    meta = {"threads": ["%d:%s (owns %d)" % (i, "+".join(p), owned[i]) for i, p in enumerate(threads)], "oracle": "linearizable bag of slot ids (an id is returned only while free; None only when no id is free; reference index == id)",
            "bounds": "OgreArrayPoolAllocator<u32, %s<u32,%d>, %d>, %d ids initially owned, free-list order and sequence origin symbolic, steps<=%d" % (container, N, N, nown, b.S),
            "interleavings_of_spec": nperm}
    violation = pre + [z3.Or(z3.And(b.all_done(), z3.Not(lin)), b.any_panic(), b.err[b.S])]
    witness = pre + [b.all_done()]
    meta["functions"] = sorted(set(x.split(">::")[-1] + " @" + (re.search(r"impl at (src/[^:]*)", x).group(1) if "impl at" in x else "") for x in it.functions_used))
    meta["intrinsics"] = sorted(it.intrinsics_used)
    rec, model = solve(name, b, violation, witness, timeout_s, ctx.workdir, meta)
    if model is not None:
        import replay
        rec["trace"] = b.decode_schedule(model)
        inp = {nm: model.eval(v, model_completion=True).as_long() for nm, v in w.inputs.items()}
        rec["inputs"] = inp
        rec["results"] = {"%d.%d" % (t, j): {kx: str(model.eval(vx, model_completion=True)) for kx, vx in res[t][j].items()} for t in res for j in range(len(res[t]))}
        # native replay: the pool is created fresh (free list 0..N-1 in order) at the model's origin; the initially owned ids are
        # allocated sequentially before the threads start, so the concrete id values may differ from the model's -- the symptom does not depend on them
        progs = []; base = 0
        for t, prog in enumerate(threads):
            p2 = []; last_alloc = None
            for j, op in enumerate(prog):
                if op == "alloc": p2.append("alloc"); last_alloc = j
                elif op.startswith("free_own"): p2.append("dealloc:%d" % (base + int(op[8:])))
                elif op == "free_last": p2.append("dealloc:r%d" % last_alloc)
                else: p2.append("dealloc_ref:r%d" % last_alloc)
            progs.append(p2); base += owned[t]
        segs = replay.segments_from_trace(rec["trace"])
        def symptom(h):
            if h["panics"]: return "panic: " + h["panics"][0]
            if h["stuck"] or h["timeout"]: return None
            ev = sorted(h["events"], key=lambda e: (e["first"], e["last"]))
            by_t = {}
            for e in h["events"]: by_t.setdefault(e["thread"], []).append(e)
            for tt in by_t: by_t[tt].sort(key=lambda e: e["call"])
            def rec_(pos, free):
                if all(pos[t] == len(by_t[t]) for t in by_t): return True
                for t in by_t:
                    if pos[t] == len(by_t[t]): continue
                    e = by_t[t][pos[t]]
                    if any(pos[u] < len(by_t[u]) and by_t[u][pos[u]]["last"] < e["first"] for u in by_t if u != t): continue
                    f2 = set(free)
                    if e["op"] == "alloc":
                        if e["res"][0] == "some":
                            i = int(e["res"][1])
                            if i not in f2: continue
                            f2.discard(i)
                        elif f2: continue
                    else:
                        if e["res"][0] == "done":
                            if e["arg"] in f2: continue
                            f2.add(e["arg"])
                    p2 = dict(pos); p2[t] += 1
                    if rec_(p2, f2): return True
                return False
            if rec_({t: 0 for t in by_t}, set(range(nown, N))): return None
            return "allocator history is not explainable by a bag of slot ids: " + "; ".join("t%d %s(%s)->%s [%d,%d]" % (e["thread"], e["op"], e["arg"], " ".join(e["res"]), e["first"], e["last"]) for e in ev)
        kindname = "PoolAtomic" if container == "AtomicMove" else "PoolFullSync"
        found, why, tried = replay.search(kindname, N, [inp["origin"]], list(range(nown)), progs, [], segs, symptom)
        rec["native_runs"] = tried
        if found: rec.update(verdict="violation", symptom=found["symptom"], replayed=True, native_history=found["history"]["events"], native_segments=found["segments"])
        else: rec.update(verdict="inconclusive", why="model counterexample did not reproduce natively: " + why)
    return rec


def _c13_registry(add, tier, TO):
    def q(name, qtier, container, N, owned, threads, slack=3):
        add("C13", name, qtier, lambda ctx: alloc_query(ctx, name, container, N, owned, threads, slack, TO))
    q("c13_atomic_n2_a_vs_afa", "quick", "AtomicMove", 2, [0, 0], [["alloc"], ["alloc", "free_last", "alloc"]])
    q("c13_atomic_n2_exhaust", "quick", "AtomicMove", 2, [1, 0, 0], [["free_own0"], ["alloc"], ["alloc"]])
    q("c13_atomic_n2_refs", "quick", "AtomicMove", 2, [0, 1], [["alloc", "free_last_ref"], ["free_own0", "alloc"]])
    q("c13_fullsync_n2_a_vs_afa", "quick", "FullSyncMove", 2, [0, 0], [["alloc"], ["alloc", "free_last", "alloc"]])
    q("c13_atomic_n4_3thr", "thorough", "AtomicMove", 4, [1, 1, 0], [["free_own0", "alloc"], ["alloc", "free_own0"], ["alloc", "free_last"]])
    q("c13_fullsync_n2_exhaust", "thorough", "FullSyncMove", 2, [1, 0, 0], [["free_own0"], ["alloc"], ["alloc"]])
    q("c13_atomic_n2_2x_afa", "thorough", "AtomicMove", 2, [0, 0], [["alloc", "free_last", "alloc"], ["alloc", "free_last", "alloc"]], 2)




# =========================================================================================================
# C14: OgreArc handles (reference counting over one pooled value)
PRELUDE += """
fn __verif::arc_clone_drop(_1: &OgreArc) -> () {
    let mut _0: ();
    let mut _2: OgreArc;
    let mut _3: &mut OgreArc;

    bb0: {
        _2 = @src/ogre_std/ogre_alloc/ogre_arc.rs:clone(copy _1) -> [return: bb1, unwind continue];
    }

    bb1: {
        _3 = &mut _2;
        _0 = @src/ogre_std/ogre_alloc/ogre_arc.rs:drop(move _3) -> [return: bb2, unwind continue];
    }

    bb2: {
        return;
    }
}

fn __verif::arc_inc_rawcopy_drop(_1: &OgreArc) -> () {
    let mut _0: ();
    let mut _2: OgreArc;
    let mut _3: &mut OgreArc;
    let mut _4: &OgreArc;

    bb0: {
        _4 = @src/ogre_std/ogre_alloc/ogre_arc.rs:increment_references(copy _1, const 1_u32) -> [return: bb1, unwind continue];
    }

    bb1: {
        _2 = @src/ogre_std/ogre_alloc/ogre_arc.rs:raw_copy(copy _1) -> [return: bb2, unwind continue];
    }

    bb2: {
        _3 = &mut _2;
        _0 = @src/ogre_std/ogre_alloc/ogre_arc.rs:drop(move _3) -> [return: bb3, unwind continue];
    }

    bb3: {
        return;
    }
}

fn __verif::arc_read(_1: &OgreArc) -> u32 {
    let mut _0: u32;
    let mut _2: &u32;

    bb0: {
        _2 = @src/ogre_std/ogre_alloc/ogre_arc.rs:deref(copy _1) -> [return: bb1, unwind continue];
    }

    bb1: {
        _0 = copy (*_2);
        return;
    }
}
"""


def arc_query(ctx, name, container, N, threads, slack, timeout_s):
    """every thread starts with ONE handle to the same value (reference count = number of threads).
    ops: 'drop' (its handle; must be the thread's last op), 'clone_drop', 'inc_rawcopy_drop', 'read', 'count'.
    A final thread (after all) allocates N+1 times to observe whether the slot went back to the pool."""
    consts = {"BUFFER_SIZE": N, "POOL_SIZE": N}
    types = {"SlotType": "u32", "DataType": "u32", "ContainerType": container, "OgreAllocatorType": "OgreArrayPoolAllocator"}
    w = World(ctx.index, ctx.type_files, consts, types)
    origin = w.sym("origin"); d = w.sym("slot"); V = w.sym("value")
    free_ids = [w.sym("free%d" % i) for i in range(N - 1)]
    pool = [z3.If(d == j, V, BV(32, POISON + 0x100 + j)) for j in range(N)]
    w.pool_allocator("a", (), N, free_ids, origin, container=container, pool_init=pool)
    fi = {nm: i for i, nm in enumerate(layout.struct_fields(ctx.type_files["InnerOgreArc"], "InnerOgreArc"))}
    T = len(threads)
    w.decl("in0", (fi["allocator"],), "frozen", None, value=Ptr("a"))
    w.decl("in0", (fi["data_id"],), "frozen", None, value=d)
    w.decl("in0", (fi["references_count"],), "atomic", z3.BitVecSort(32), BV(32, T))
    for t in range(T): w.decl("h%d" % t, (0,), "frozen", None, value=Ptr("in0"))
    it = w.interp()
    F = lambda m: ctx.index.method(m, ctx.type_files["OgreArc"])
    f_drop = ctx.index.method("drop", ctx.type_files["OgreArc"], "&mut OgreArc")
    f_count = F("references_count")
    graphs = []; plan = []
    for t, prog in enumerate(threads):
        h = Ptr("h%d" % t); calls = []
        for j, op in enumerate(prog):
            if op == "drop": calls.append((f_drop, [h], op))
            elif op == "clone_drop": calls.append((ctx.helper("arc_clone_drop"), [h], op))
            elif op == "inc_rawcopy_drop": calls.append((ctx.helper("arc_inc_rawcopy_drop"), [h], op))
            elif op == "read": calls.append((ctx.helper("arc_read"), [h], op))
            elif op == "count": calls.append((f_count, [h], op))
            else: raise EncodingError("arc op " + op)
            plan.append((t, j, op))
        graphs.append(build_thread(it, t, calls, w.mem))
    f_alloc = ctx.index.method("alloc_ref", ctx.type_files["OgreArrayPoolAllocator"], "OgreArrayPoolAllocator")
    graphs.append(build_thread(it, T, [(f_alloc, [Ptr("a")], "alloc")] * (N + 1), w.mem))
    S = sum(g.step_budget() for g in graphs) + slack
    b = BMC(graphs, w.mem, S, {"after_all": {T: True}, "heap_roots": ["in0"]})
    S = b.S
    allids = free_ids + [d]
    pre = [z3.ULT(x, BV(32, N)) for x in allids] + [allids[i] != allids[j] for i in range(len(allids)) for j in range(i + 1, len(allids))]
    pre += [z3.ULT(V, BV(32, POISON)), z3.UGE(V, BV(32, 0x1000))]
    res = {}
    for t in range(T):
        ops = [p[2] for p in plan if p[0] == t]
        res[t] = b.results(t, lambda j, v, ops=ops: {"val": v} if ops[j] in ("read", "count") else {})
    allocs = b.results(T, lambda j, v: ex_alloc(v))
    dropped_all = all(prog and prog[-1] == "drop" for prog in threads)
    live = sum(1 for prog in threads if not (prog and prog[-1] == "drop"))
    good = []
    for (t, j, op) in plan:
        if op == "read": good.append(res[t][j]["val"] == V)                       # a live handle always dereferences to the value written at creation
    got_d = z3.Or([z3.And(x["some"], x["id"] == d) for x in allocs])
    n_some = sum([z3.If(x["some"], BV(8, 1), BV(8, 0)) for x in allocs], BV(8, 0))
    ids_distinct = z3.And([z3.Not(z3.And(allocs[i]["some"], allocs[j]["some"], allocs[i]["id"] == allocs[j]["id"])) for i in range(len(allocs)) for j in range(i + 1, len(allocs))])
    refcount_final = b.memv[S][("in0", (fi["references_count"],))]
    if dropped_all:
        good += [z3.Not(b.alive[S]["in0"]), b.freed_count[S]["in0"] == 1, got_d, n_some == N, ids_distinct]
    else:
        good += [b.alive[S]["in0"], z3.Not(got_d), n_some == N - 1, ids_distinct, refcount_final == live]
    meta = {"threads": ["%d:%s" % (i, "+".join(p)) for i, p in enumerate(threads)] + ["alloc x%d (runs after all)" % (N + 1)],
            "oracle": "value destroyed and slot returned exactly when the last handle is dropped (control block freed once, slot allocatable again exactly once), never while a handle lives; reads see the original value; final count == live handles; no access to a freed control block",
            "bounds": "OgreArc over OgreArrayPoolAllocator<u32,%s<u32,%d>,%d>; %d handles on %d threads; steps<=%d" % (container, N, N, T, T, S)}
    violation = pre + [z3.Or(z3.And(b.all_done(), z3.Not(z3.And(good))), b.any_panic(), b.err[S])]
    witness = pre + [b.all_done()]
    meta["functions"] = sorted(set(x.split(">::")[-1] + " @" + (re.search(r"impl at (src/[^:]*)", x).group(1) if "impl at" in x else "") for x in it.functions_used))
    meta["intrinsics"] = sorted(it.intrinsics_used)
    rec, model = solve(name, b, violation, witness, timeout_s, ctx.workdir, meta)
    if model is not None:
        import replay
        rec["trace"] = b.decode_schedule(model)
        inp = {nm: model.eval(v, model_completion=True).as_long() for nm, v in w.inputs.items()}
        rec["inputs"] = inp
        rec["model_final"] = {"alive": str(model.eval(b.alive[S]["in0"], model_completion=True)), "refcount": str(model.eval(refcount_final, model_completion=True)),
                              "err": str(model.eval(b.err[S], model_completion=True)), "allocs": [{k: str(model.eval(v, model_completion=True)) for k, v in x.items()} for x in allocs]}
        segs = replay.segments_from_trace(rec["trace"], skip_threads=(T,))
        def symptom(h):
            if h["panics"]: return "panic: " + h["panics"][0]
            if h["stuck"] or h["timeout"]: return None
            reads = [e for e in h["events"] if e["op"] == "read"]
            for e in reads:
                if e["res"][:2] != ["val", str(inp["value"])]: return "a live handle dereferenced to %s instead of the value written at creation (%d)" % (" ".join(e["res"]), inp["value"])
            al = [e for e in h["events"] if e["op"] == "alloc"]
            some = [int(e["res"][1]) for e in al if e["res"][0] == "some"]
            if len(set(some)) != len(some): return "the pool handed out the same slot twice: %s" % some
            if dropped_all and len(some) != N: return "all handles were dropped but only %d of %d slots are allocatable: the value's slot was never returned" % (len(some), N)
            if not dropped_all and len(some) != N - 1: return "a handle is still alive but %d slots are allocatable: its slot was returned to the pool" % len(some)
            cnt = [e for e in h["events"] if e["op"] == "final_count"]
            return None
        progs = [list(p) for p in threads]
        found, why, tried = replay.search("OgreArc" + ("Atomic" if container == "AtomicMove" else "FullSync"), N, [inp["origin"]], [inp["value"]], progs, ["alloc"] * (N + 1), segs, symptom)
        rec["native_runs"] = tried
        if found: rec.update(verdict="violation", symptom=found["symptom"], replayed=True, native_history=found["history"]["events"], native_segments=found["segments"])
        else: rec.update(verdict="inconclusive", why="model counterexample (final state: %s) did not reproduce natively: %s" % (rec["model_final"], why))
    return rec


def _c14_registry(add, tier, TO):
    def q(name, qtier, container, N, threads, slack=3):
        add("C14", name, qtier, lambda ctx: arc_query(ctx, name, container, N, threads, slack, TO))
    q("c14_last_two_drops", "quick", "AtomicMove", 2, [["read", "drop"], ["read", "drop"]])
    q("c14_clone_vs_final_drop", "quick", "AtomicMove", 2, [["clone_drop", "read"], ["drop"]])
    q("c14_bulk_increment_vs_drop", "quick", "AtomicMove", 2, [["inc_rawcopy_drop", "drop"], ["clone_drop", "drop"]])
    q("c14_three_threads", "thorough", "AtomicMove", 2, [["clone_drop", "drop"], ["read", "drop"], ["inc_rawcopy_drop", "drop"]])
    q("c14_fullsync_last_two_drops", "thorough", "FullSyncMove", 2, [["clone_drop", "drop"], ["read", "drop"]])
    q("c14_keep_one", "thorough", "AtomicMove", 2, [["clone_drop", "count"], ["inc_rawcopy_drop", "drop"]])




# =========================================================================================================
# channel level: uni::channels::movable::atomic::Atomic (reservation API, C08)
UMA_FILE = "src/uni/channels/movable/atomic.rs"
PRELUDE += """
fn __verif::uma_reserve_fill_send_or_cancel(_1: &Atomic, _2: u32) -> u32 {
    let mut _0: u32;
    let mut _3: Option<&mut u32>;
    let mut _4: isize;
    let mut _5: &mut u32;
    let mut _6: bool;
    let mut _7: bool;
    let mut _8: bool;

    bb0: {
        _3 = @src/uni/channels/movable/atomic.rs:reserve_slot(copy _1) -> [return: bb1, unwind continue];
    }

    bb1: {
        _4 = discriminant(_3);
        switchInt(move _4) -> [0: bb2, otherwise: bb3];
    }

    bb2: {
        _0 = const 0_u32;
        return;
    }

    bb3: {
        _5 = copy ((_3 as Some).0: &mut u32);
        (*_5) = copy _2;
        _6 = @src/uni/channels/movable/atomic.rs:try_send_reserved(copy _1, copy _5) -> [return: bb4, unwind continue];
    }

    bb4: {
        switchInt(copy _6) -> [0: bb5, otherwise: bb9];
    }

    bb5: {
        _7 = @src/uni/channels/movable/atomic.rs:try_cancel_slot_reserve(copy _1, copy _5) -> [return: bb6, unwind continue];
    }

    bb6: {
        switchInt(copy _7) -> [0: bb7, otherwise: bb10];
    }

    bb7: {
        _8 = @src/uni/channels/movable/atomic.rs:try_send_reserved(copy _1, copy _5) -> [return: bb8, unwind continue];
    }

    bb8: {
        switchInt(copy _8) -> [0: bb11, otherwise: bb9];
    }

    bb9: {
        _0 = const 1_u32;
        return;
    }

    bb10: {
        _0 = const 2_u32;
        return;
    }

    bb11: {
        _0 = const 3_u32;
        return;
    }
}
"""


def uni_move_atomic_world(ctx, N, MS, k):
    consts = {"BUFFER_SIZE": N, "MAX_STREAMS": MS}
    types = {"SlotType": "u32", "ItemType": "u32"}
    w = World(ctx.index, ctx.type_files, consts, types)
    origin = w.sym("origin")
    pre = [w.sym("pre%d" % i) for i in range(k)]
    cf = {nm: i for i, nm in enumerate(layout.struct_fields(UMA_FILE, "Atomic"))}
    w.atomic_move("ch", (cf["channel"],), N, origin, pre)
    sf = {nm: i for i, nm in enumerate(w.fields("StreamsManagerBase"))}
    sm = (cf["streams_manager"],)
    w.decl("ch", sm + (sf["wakers"], "*"), "frozen", None, value=opt_none())          # no stream is registered in these queries
    w.decl("ch", sm + (sf["wakers_lock"],), "atomic", z3.BoolSort(), z3.BoolVal(False))
    return w, Ptr("ch"), pre


def reservation_query(ctx, name, N, k, nprod, nrecv, slack, timeout_s):
    """nprod producer threads each: reserve + fill + try_send_reserved (if refused: try_cancel; if that is refused too: one more
    try_send_reserved); one consumer thread polling nrecv times; afterwards a drain of N receives followed by N plain sends"""
    w, ch, pre = uni_move_atomic_world(ctx, N, 1, k)
    it = w.interp()
    F = lambda m: ctx.index.method(m, UMA_FILE)
    graphs = []; vals = []
    for t in range(nprod):
        v = w.sym("v%d" % t); vals.append(v)
        graphs.append(build_thread(it, t, [(ctx.helper("uma_reserve_fill_send_or_cancel"), [ch, v], "reserve_fill_send_or_cancel")], w.mem))
    f_consume = F("consume"); f_send = F("send")
    graphs.append(build_thread(it, nprod, [(f_consume, [ch, BV(32, 0)], "recv")] * nrecv, w.mem))
    T = nprod + 1
    refill = [w.sym("refill%d" % i) for i in range(N)]
    refill = []        # (capacity restoration after reservations is decided by the sequential K harnesses; here only the drain)
    graphs.append(build_thread(it, T, [(f_consume, [ch, BV(32, 0)], "recv")] * N, w.mem))
    S = sum(g.step_budget() for g in graphs) + slack
    b = BMC(graphs, w.mem, S, {"after_all": {T: True}})
    S = b.S
    allv = vals + pre + refill
    cons = [allv[i] != allv[j] for i in range(len(allv)) for j in range(i + 1, len(allv))] + [z3.And(z3.UGE(v, BV(32, 0x1000)), z3.ULT(v, BV(32, POISON))) for v in allv]
    codes = [b.results(t, lambda j, v: {"code": v})[0]["code"] for t in range(nprod)]
    recvs = b.results(nprod, lambda j, v: ex_option_u32(v)) + b.results(T, lambda j, v: ex_option_u32(v) if j < N else {})[:N]
    def ex_send(v): return {"ok": v.discr == 0}
    sends = b.results(T, lambda j, v: ex_send(v) if j >= N else {})[N:]
    valid = [(codes[t] == 1, vals[t]) for t in range(nprod)] + [(z3.BoolVal(True), v) for v in pre]
    good = []
    for r in recvs: good.append(z3.Implies(r["some"], z3.Or([z3.And(ok, r["val"] == v) for ok, v in valid])))      # nothing cancelled / unsent is delivered
    for i in range(len(recvs)):
        for j in range(i + 1, len(recvs)): good.append(z3.Not(z3.And(recvs[i]["some"], recvs[j]["some"], recvs[i]["val"] == recvs[j]["val"])))
    for ok, v in valid: good.append(z3.Implies(ok, z3.Or([z3.And(r["some"], r["val"] == v) for r in recvs])))       # a sent slot is delivered
    for c in codes: good.append(c != 3)                                                                             # a reservation can always be sent or cancelled eventually
    for sd in sends: good.append(sd["ok"])                                                                           # capacity restored: BUFFER_SIZE events accepted again
    meta = {"threads": ["%d:reserve+fill+try_send_reserved|try_cancel" % t for t in range(nprod)] + ["%d:consume x%d" % (nprod, nrecv), "drain x%d (runs after all)" % N],
            "oracle": "sent reservations delivered exactly once with the written content, cancelled ones never, every reservation resolvable, BUFFER_SIZE events accepted afterwards",
            "bounds": "ChannelUniMoveAtomic<u32,%d,1>, pre-filled %d, origin any u32, steps<=%d" % (N, k, S)}
    violation = cons + [z3.Or(z3.And(b.all_done(), z3.Not(z3.And(good))), b.any_panic(), b.err[S])]
    witness = cons + [b.all_done()] + [c == 1 for c in codes]
    meta["functions"] = sorted(set(x.split(">::")[-1] + " @" + (re.search(r"impl at (src/[^:]*)", x).group(1) if "impl at" in x else "") for x in it.functions_used))
    meta["intrinsics"] = sorted(it.intrinsics_used)
    rec, model = solve(name, b, violation, witness, timeout_s, ctx.workdir, meta)
    if model is not None:
        import replay
        rec["trace"] = b.decode_schedule(model)
        inp = {nm: model.eval(v, model_completion=True).as_long() for nm, v in w.inputs.items()}
        rec["inputs"] = inp
        rec["model_results"] = {"codes": [str(model.eval(c, model_completion=True)) for c in codes],
                                "recvs": [{kx: str(model.eval(vx, model_completion=True)) for kx, vx in r.items()} for r in recvs],
                                "refill_sends": [str(model.eval(sd["ok"], model_completion=True)) for sd in sends]}
        progs = [["reserve_send_or_cancel:%d" % inp["v%d" % t]] for t in range(nprod)] + [["recv"] * nrecv]
        after = ["recv"] * N
        prefill_vals = [inp["pre%d" % i] for i in range(k)]
        segs = replay.segments_from_trace(rec["trace"], skip_threads=(T,))
        def symptom(h):
            if h["panics"]: return "panic: " + h["panics"][0]
            if h["stuck"] or h["timeout"]: return "a thread could not finish (stuck): " + str(h["stuck"])
            sent = list(prefill_vals); cancelled = []
            for e in h["events"]:
                if e["op"] == "reserve_send_or_cancel":
                    if e["res"][:2] == ["code", "1"]: sent.append(e["arg"])
                    elif e["res"][:2] == ["code", "2"]: cancelled.append(e["arg"])
                    elif e["res"][:2] == ["code", "3"]: return "a reservation could neither be sent nor cancelled"
            got = [int(e["res"][1]) for e in h["events"] if e["op"] == "recv" and e["res"][0] == "some"]
            for v in got:
                if v in cancelled: return "a CANCELLED reservation (%d) was delivered" % v
                if v not in sent: return "delivered %d which was never sent" % v
            if len(set(got)) != len(got): return "delivered twice: %s" % got
            for v in sent:
                if v not in got: return "sent reservation %d never delivered" % v
            rf = [e for e in h["events"] if e["op"] == "send"]
            if any(e["res"][:2] != ["ok", "true"] for e in rf): return "after everything was consumed the channel accepted only %d of %d events" % (sum(1 for e in rf if e["res"][:2] == ["ok", "true"]), N)
            return None
        found, why, tried = replay.search("UniMoveAtomic", N, [inp["origin"]], prefill_vals, progs, after, segs, symptom)
        rec["native_runs"] = tried
        if found: rec.update(verdict="violation", symptom=found["symptom"], replayed=True, native_history=found["history"]["events"], native_segments=found["segments"])
        else: rec.update(verdict="inconclusive", why="model counterexample %s did not reproduce natively: %s" % (rec["model_results"], why))
    return rec


def _c08_registry(add, tier, TO):
    def q(name, qtier, N, k, nprod, nrecv, slack=0):
        add("C08", name, qtier, lambda ctx: reservation_query(ctx, name, N, k, nprod, nrecv, slack, TO))
    q("c08_reserve_vs_consumer_n2_k0", "quick", 2, 0, 1, 2)
    q("c08_reserve_vs_consumer_n2_k1", "quick", 2, 1, 1, 2)
    q("c08_two_reservers_vs_consumer_n2_k0", "thorough", 2, 0, 2, 2)
    q("c08_reserve_vs_consumer_n4_k3", "thorough", 4, 3, 1, 3)




# =========================================================================================================
# C18: the stand-alone atomic-flag stack (linearizable bounded LIFO)
def stack_query(ctx, name, N, k, threads, slack, timeout_s):
    consts = {"BUFFER_SIZE": N, "METRICS": False, "DEBUG": False}
    w = World(ctx.index, ctx.type_files, consts, {"SlotType": "u32"})
    sfile = "src/ogre_std/ogre_stacks/non_blocking_atomic_stack.rs"
    f = {nm: i for i, nm in enumerate(layout.struct_fields(sfile, "Stack"))}
    pre = [w.sym("pre%d" % i) for i in range(k)]
    w.decl("s", (f["head"],), "plain", z3.BitVecSort(32), BV(32, k))
    w.decl("s", (f["flag"],), "atomic", z3.BoolSort(), z3.BoolVal(False))
    w.decl("s", (f["buffer"],), "array", z3.BitVecSort(32), [pre[j] if j < k else BV(32, POISON + j) for j in range(N)], n=N)
    it = w.interp()
    f_push = ctx.index.method("push", sfile); f_pop = ctx.index.method("pop", sfile)
    sp = Ptr("s")
    graphs = []; plan = []; vals = []
    for t, prog in enumerate(threads):
        calls = []
        for j, op in enumerate(prog):
            if op == "push":
                v = w.sym("v%d_%d" % (t, j)); vals.append(v); calls.append((f_push, [sp, v], op)); plan.append((t, j, op, v))
            else:
                calls.append((f_pop, [sp], op)); plan.append((t, j, op, None))
        graphs.append(build_thread(it, t, calls, w.mem))
    S = sum(g.step_budget() for g in graphs) + slack
    b = BMC(graphs, w.mem, S, {"real_time_order": True})
    S = b.S
    allv = vals + pre
    cons = [allv[i] != allv[j] for i in range(len(allv)) for j in range(i + 1, len(allv))] + [z3.And(z3.UGE(v, BV(32, 0x1000)), z3.ULT(v, BV(32, POISON))) for v in allv]
    for ta in range(len(threads)):
        for tb in range(ta + 1, len(threads)):
            if threads[ta] == threads[tb]: cons.append(z3.ULE(b.call_times(ta)[0][0], b.call_times(tb)[0][0]))
    res = {}
    for t in range(len(graphs)):
        ops = [p[2] for p in plan if p[0] == t]
        res[t] = b.results(t, lambda j, v, ops=ops: {"ok": v} if ops[j] == "push" else ex_option_u32(v))
    oplist = []
    for (t, j, op, v) in plan:
        fs, ls = b.call_times(t)[j]
        oplist.append({"thread": t, "first": fs, "last": ls, "kind": op, "arg": v, "res": res[t][j]})
    maxlen = N
    def step(st, op):
        items, ln = st
        if op["kind"] == "push":
            room = z3.ULT(ln, BV(8, N))
            ok = op["res"]["ok"] == room
            return ok, ([z3.If(z3.And(room, ln == jj), op["arg"], items[jj]) for jj in range(maxlen)], z3.If(room, ln + 1, ln))
        nonempty = ln != 0
        top = items[0]
        for jj in range(1, maxlen): top = z3.If(ln == jj + 1, items[jj], top)
        ok = z3.And(op["res"]["some"] == nonempty, z3.Implies(nonempty, op["res"]["val"] == top))
        return ok, (items, z3.If(nonempty, ln - 1, ln))
    init = ([pre[i] if i < k else BV(32, 0) for i in range(maxlen)], BV(8, k))
    lin, nperm = linearizable(oplist, init, step)
    meta = {"threads": ["%d:%s" % (i, "+".join(p)) for i, p in enumerate(threads)], "oracle": "linearizable bounded LIFO (strict: full / empty answers need a full / empty stack at the linearization point)",
            "bounds": "non_blocking_atomic_stack::Stack<u32,%d,false,false>, pre-filled %d, steps<=%d" % (N, k, S), "interleavings_of_spec": nperm}
    violation = cons + [z3.Or(z3.And(b.all_done(), z3.Not(lin)), b.any_panic(), b.err[S])]
    witness = cons + [b.all_done()]
    meta["functions"] = sorted(set(x.split(">::")[-1] + " @" + (re.search(r"impl at (src/[^:]*)", x).group(1) if "impl at" in x else "") for x in it.functions_used))
    meta["intrinsics"] = sorted(it.intrinsics_used)
    rec, model = solve(name, b, violation, witness, timeout_s, ctx.workdir, meta)
    if model is not None:
        import replay
        rec["trace"] = b.decode_schedule(model)
        inp = {nm: model.eval(v, model_completion=True).as_long() for nm, v in w.inputs.items()}
        rec["inputs"] = inp
        rec["results"] = {"%d.%d" % (t, j): {kx: str(model.eval(vx, model_completion=True)) for kx, vx in res[t][j].items()} for t in res for j in range(len(res[t]))}
        progs = [[("push:%d" % inp["v%d_%d" % (t, j)]) if op == "push" else "pop" for j, op in enumerate(prog)] for t, prog in enumerate(threads)]
        prefill_vals = [inp["pre%d" % i] for i in range(k)]
        segs = replay.segments_from_trace(rec["trace"])
        def symptom(h):
            if h["panics"]: return "panic: " + h["panics"][0]
            if h["stuck"] or h["timeout"]: return None
            by_t = {}
            for e in h["events"]: by_t.setdefault(e["thread"], []).append(e)
            for tt in by_t: by_t[tt].sort(key=lambda e: e["call"])
            def rec_(pos, stack):
                if all(pos[t] == len(by_t[t]) for t in by_t): return True
                for t in by_t:
                    if pos[t] == len(by_t[t]): continue
                    e = by_t[t][pos[t]]
                    if any(pos[u] < len(by_t[u]) and by_t[u][pos[u]]["last"] < e["first"] for u in by_t if u != t): continue
                    s2 = list(stack)
                    if e["op"] == "push":
                        acc = e["res"][:2] == ["ok", "true"]
                        if acc != (len(s2) < N): continue
                        if acc: s2.append(e["arg"])
                    else:
                        if e["res"][0] == "some":
                            if not s2 or s2[-1] != int(e["res"][1]): continue
                            s2.pop()
                        elif s2: continue
                    p2 = dict(pos); p2[t] += 1
                    if rec_(p2, s2): return True
                return False
            if rec_({t: 0 for t in by_t}, list(prefill_vals)): return None
            return "history is not linearizable as a bounded LIFO: " + "; ".join("t%d %s(%s)->%s [%d,%d]" % (e["thread"], e["op"], e["arg"], " ".join(e["res"]), e["first"], e["last"]) for e in h["events"])
        found, why, tried = replay.search("Stack", N, [0], prefill_vals, progs, [], segs, symptom)
        rec["native_runs"] = tried
        if found: rec.update(verdict="violation", symptom=found["symptom"], replayed=True, native_history=found["history"]["events"], native_segments=found["segments"])
        else: rec.update(verdict="inconclusive", why="model counterexample did not reproduce natively: " + why)
    return rec


def _c18_registry(add, tier, TO):
    def q(name, qtier, N, k, threads, slack=0):
        add("C18", name, qtier, lambda ctx: stack_query(ctx, name, N, k, threads, slack, TO))
    q("c18_stack_push_vs_pop_n2_k1", "quick", 2, 1, [["push", "pop"], ["pop", "push"]])
    q("c18_stack_3thr_n2_k1", "quick", 2, 1, [["push"], ["pop"], ["pop"]])
    q("c18_stack_full_boundary_n2_k2", "quick", 2, 2, [["push"], ["pop", "push"]])
    q("c18_stack_3thr_n4_k2", "thorough", 4, 2, [["push", "pop"], ["pop", "push"], ["push"]])
    q("c18_stack_2x3_n2_k1", "thorough", 2, 1, [["push", "pop", "push"], ["pop", "push", "pop"]], 2)
    # the two non-blocking queues are the zero-copy rings behind a thin wrapper (enqueue = publish_movable, dequeue = consume): same MIR as C02's zero-copy queries
    def lin(name, qtier, kind, N, k, threads, slack=2):
        add("C18", name, qtier, lambda ctx: fifo_query(ctx, name, kind, N, k, threads, "linearizable", slack, TO, drain=False))
    lin("c18_queue_atomic_lin_p_cc_n2_k1", "quick", "AtomicZeroCopy", 2, 1, [["send"], ["recv", "recv"]])
    lin("c18_queue_fullsync_lin_p_cc_n2_k1", "quick", "FullSyncZeroCopy", 2, 1, [["send"], ["recv", "recv"]])
    lin("c18_queue_atomic_lin_c_pc_n2_k1", "thorough", "AtomicZeroCopy", 2, 1, [["recv"], ["send", "recv"]])       # a dequeue racing an enqueue+dequeue pair
    lin("c18_queue_atomic_lin_pp_c_c_n2_k1", "thorough", "AtomicZeroCopy", 2, 1, [["send", "send"], ["recv"], ["recv"]])




# =========================================================================================================
# C19: AtomicIncrementalAverage64 (count exact; (count, average) pairs consistent)
def metric_query(ctx, name, threads, slack, timeout_s):
    """threads: lists of 'inc' / 'probe'. Float arithmetic is abstracted (see Interp.float_op): the oracle replays the SAME abstract
    update in every order of the recorded measurements."""
    import itertools as _it
    from interp import Interp as _I
    w = World(ctx.index, ctx.type_files, {}, {})
    mfile = ctx.type_files["AtomicIncrementalAverage64"]
    uf = {nm: i for i, nm in enumerate(layout.struct_fields(mfile, "AtomicIncrementalAverage64"))}
    w.decl("m", (uf["joined"],), "atomic", z3.BitVecSort(64), BV(64, 0))
    it = w.interp()
    f_inc = ctx.index.method("inc", mfile); f_probe = ctx.index.method("probe", mfile)
    mp = Ptr("m")
    graphs = []; plan = []; ms = []
    for t, prog in enumerate(threads):
        calls = []
        for j, op in enumerate(prog):
            if op == "inc":
                v = w.sym("m%d_%d" % (t, j)); ms.append(v); calls.append((f_inc, [mp, v], op))
            else: calls.append((f_probe, [mp], op))
            plan.append((t, j, op))
        graphs.append(build_thread(it, t, calls, w.mem))
    S = sum(g.step_budget() for g in graphs) + slack
    b = BMC(graphs, w.mem, S, {})
    S = b.S
    ONE = BV(32, 0x3F800000)
    def upd(c, avg, m):
        cf = c
        d = _I.float_op("Add", ONE, cf)
        return _I.float_op("Add", _I.float_op("Mul", _I.float_op("Div", cf, d), avg), _I.float_op("Div", m, d))
    n = len(ms)
    prefixes = {}        # j -> list of possible averages after j measurements (over all orders)
    for perm in _it.permutations(range(n)):
        avg = BV(32, 0)
        for j, i in enumerate(perm):
            avg = upd(BV(32, j), avg, ms[i])
            prefixes.setdefault(j + 1, []).append(avg)
    prefixes[0] = [BV(32, 0)]
    final = b.memv[S][("m", (uf["joined"],))]
    fcount = z3.Extract(31, 0, final); favg = z3.Extract(63, 32, final)
    good = [fcount == n, z3.Or([favg == a for a in prefixes[n]])]
    res = {}
    for t in range(len(graphs)):
        ops = [p[2] for p in plan if p[0] == t]
        res[t] = b.results(t, lambda j, v, ops=ops: {"count": v.fields[0], "avg": v.fields[1]} if ops[j] == "probe" else {})
    for (t, j, op) in plan:
        if op == "probe":
            r = res[t][j]
            good.append(z3.Or([z3.And(r["count"] == c, z3.Or([r["avg"] == a for a in prefixes[c]])) for c in range(n + 1)]))
    cons = [ms[i] != ms[j] for i in range(n) for j in range(i + 1, n)]
    meta = {"threads": ["%d:%s" % (i, "+".join(p)) for i, p in enumerate(threads)],
            "oracle": "final count == number of inc calls; final average and every probed (count, average) pair equal the update function folded over SOME order of the measurements (prefix of length count)",
            "bounds": "AtomicIncrementalAverage64, %d measurements (distinct symbolic 32-bit words), steps<=%d; f32 arithmetic abstracted by bit-vector mixing functions" % (n, S)}
    violation = cons + [z3.Or(z3.And(b.all_done(), z3.Not(z3.And(good))), b.any_panic(), b.err[S])]
    witness = cons + [b.all_done()]
    meta["functions"] = sorted(set(x.split(">::")[-1] + " @" + (re.search(r"impl at (src/[^:]*)", x).group(1) if "impl at" in x else "") for x in it.functions_used))
    meta["intrinsics"] = sorted(it.intrinsics_used)
    rec, model = solve(name, b, violation, witness, timeout_s, ctx.workdir, meta)
    if model is not None:
        import replay, struct, numpy as np
        rec["trace"] = b.decode_schedule(model)
        rec["model_final"] = {"count": str(model.eval(fcount, model_completion=True)), "avg_word": str(model.eval(favg, model_completion=True))}
        # native replay with REAL floats (the model's float values are abstract): first with distinct, exactly representable
        # measurements 1, 3, 9 ...; then with coincidence-prone ones (the -1.0 "no timing" sentinel everywhere except one 1000.0),
        # because a defect may depend on an average that equals the next measurement bit for bit
        n_inc = sum(1 for prog in threads for op in prog if op == "inc")
        input_sets = [[float(3 ** i) for i in range(n_inc)],
                      [0.0] * (n_inc - 1) + [1000.0], [1000.0] + [0.0] * (n_inc - 1),       # 0.0 is the INITIAL average: a coincidence already for the first recording
                      [-1.0] * (n_inc - 1) + [1000.0], [1000.0] + [-1.0] * (n_inc - 1)]
        budget0 = os.environ.get("VERIF_REPLAY_BUDGET_S")
        os.environ["VERIF_REPLAY_BUDGET_S"] = str(max(60.0, float(budget0 or "240") / 2))     # per input set
        segs = replay.segments_from_trace(rec["trace"])
        found, why, tried = None, "", 0
        for xs_in in input_sets:
            fl = {}; k = 0; progs = []
            for t, prog in enumerate(threads):
                p2 = []
                for j, op in enumerate(prog):
                    if op == "inc":
                        x = xs_in[k]; k += 1
                        p2.append("inc:%d" % struct.unpack("<I", struct.pack("<f", x))[0]); fl[(t, j)] = x
                    else: p2.append("probe")
                progs.append(p2)
            xs = list(fl.values())
            def fold(order):
                avg = np.float32(0.0); out = [np.float32(0.0)]
                for j, x in enumerate(order):
                    c = np.float32(j)
                    avg = (c / (np.float32(1.0) + c)) * avg + np.float32(x) / (np.float32(1.0) + c)
                    out.append(avg)
                return out
            folds = [fold(p_) for p_ in set(_it.permutations(xs))]
            def symptom(h, folds=folds, xs=xs):
                if h["panics"]: return "panic: " + h["panics"][0]
                if h["stuck"] or h["timeout"]: return None
                pr = [e for e in h["events"] if e["op"] == "probe"]
                fin = [e for e in pr if e["thread"] == len(threads)]
                for e in pr:
                    c = int(e["res"][1]); a_ = np.uint32(int(e["res"][2])).view(np.float32)
                    if not any(c < len(f) and f[c] == a_ for f in folds): return "probe returned count %d with average %r, which is not the average of any %d of the recorded measurements %s" % (c, float(a_), c, xs)
                if fin and int(fin[-1]["res"][1]) != len(xs): return "final count %s != number of recorded measurements %d" % (fin[-1]["res"][1], len(xs))
                return None
            f_, why, t_ = replay.search("Metric", 2, [0], [], progs, ["probe"], segs, symptom)
            tried += t_
            if f_: found = f_; break
        if budget0 is None: os.environ.pop("VERIF_REPLAY_BUDGET_S", None)
        else: os.environ["VERIF_REPLAY_BUDGET_S"] = budget0
        rec["native_runs"] = tried
        if found: rec.update(verdict="violation", symptom=found["symptom"], replayed=True, native_history=found["history"]["events"], native_segments=found["segments"])
        else: rec.update(verdict="inconclusive", why="model counterexample (final %s) did not reproduce natively: %s" % (rec["model_final"], why))
    return rec


def _c19_registry(add, tier, TO):
    def q(name, qtier, threads, slack=2):
        add("C19", name, qtier, lambda ctx: metric_query(ctx, name, threads, slack, TO))
    q("c19_two_writers_one_reader", "quick", [["inc"], ["inc"], ["probe", "probe"]])
    q("c19_two_writers_two_each", "quick", [["inc", "inc"], ["inc"]])
    q("c19_three_writers_one_reader", "thorough", [["inc"], ["inc"], ["inc"], ["probe", "probe"]])
    q("c19_two_writers_two_each_reader", "thorough", [["inc", "inc"], ["inc", "inc"], ["probe"]])




# =========================================================================================================
# C16 / C20: bounded own steps -- no operation may spin on a thread that has already returned
def progress_query(ctx, name, kind, N, k, holder, workers, timeout_s, expect_blocked=False):
    """thread 0 (`holder`) performs its operations and RETURNS -- e.g. ['reserve'] models a send_with_async whose setter is suspended
    (slot reserved, not yet published). The worker threads then run their operations. Violation: a worker is still not finished
    although every other thread finished K steps earlier, K = the worker's longest acyclic path + 2 (a deterministic solo run that
    long has revisited a program point: it spins)."""
    w, q, ops, pre = fifo_object(ctx, kind, N, k)
    it = w.interp()
    def reserve_call():
        if kind in ("AtomicMove", "FullSyncMove"):
            f = fn_of(w, kind, "leak_slot_internal")
            pm = fn_of(w, kind, "publish_movable")
            clo = [x for x in ctx.index.closures.values() if x.name.startswith(pm.name + "::{closure#0}")]
            if len(clo) != 1: raise EncodingError("report_full closure of publish_movable not found")
            return (f, [q, Agg("closure", [], clo[0])], "reserve")
        return (ctx.index.method("leak_slot", ctx.type_files[kind], kind), [q], "reserve")
    def mk(prog, t):
        calls = []
        for j, op in enumerate(prog):
            if op == "reserve": calls.append(reserve_call())
            elif op == "send": calls.append((ops["send"][0], [q, w.sym("v%d_%d" % (t, j))], op))
            else: calls.append((ops["recv"][0], [q], op))
        return calls
    graphs = [build_thread(it, 0, mk(holder, 0), w.mem)]
    for i, prog in enumerate(workers): graphs.append(build_thread(it, i + 1, mk(prog, i + 1), w.mem))
    Ks = [g.longest_path() + 2 for g in graphs]
    S = sum(g.step_budget() for g in graphs) + max(Ks[1:])
    b = BMC(graphs, w.mem, S, {"stutter_when_alone": True, "por": True})
    S = b.S
    stuck = []
    for t in range(1, len(graphs)):
        kt = min(Ks[t], S)
        others_done = z3.And([z3.Or(b.is_kind(u, S - kt, "done"), b.is_kind(u, S - kt, "panic")) for u in range(len(graphs)) if u != t])
        stuck.append(z3.And(others_done, z3.Not(b.is_kind(t, S, "done")), z3.Not(b.is_kind(t, S, "panic"))))
    meta = {"threads": ["0:%s (returns, then stays away)" % "+".join(holder)] + ["%d:%s" % (i + 1, "+".join(p)) for i, p in enumerate(workers)],
            "oracle": "every operation finishes within a bounded number of its OWN steps once all other threads have returned (no spinning on a returned / suspended thread)",
            "bounds": "%s, BUFFER_SIZE=%d, pre-filled %d, origin any u32, steps<=%d, solo-run bounds %s" % (kind, N, k, S, Ks[1:])}
    # "a rejected send changes nothing": when every thread has returned, the ring is quiescent and holds exactly the pre-filled
    # events that were not received plus the accepted ones -- each once (raw rings; the zero-copy wrappers are covered by C01/C13)
    consistent = z3.BoolVal(True); cons = []
    if kind in ("AtomicMove", "FullSyncMove") and "reserve" not in holder:
        progs_all = [holder] + list(workers)
        sent_vals = [(t, j, w.inputs["v%d_%d" % (t, j)]) for t, prog in enumerate(progs_all) for j, op in enumerate(prog) if op == "send"]
        allv = [v for (_, _, v) in sent_vals] + pre
        cons = [allv[i] != allv[j2] for i in range(len(allv)) for j2 in range(i + 1, len(allv))] + [z3.And(z3.UGE(v, BV(32, 0x1000)), z3.ULT(v, BV(32, POISON))) for v in allv]
        res_by_t = {t: b.results(t, lambda j, v, prog=prog: (ex_publish_movable(v) if prog[j] == "send" else ex_option_u32(v))) for t, prog in enumerate(progs_all)}
        accepted = [(res_by_t[t][j]["ok"], v) for (t, j, v) in sent_vals] + [(z3.BoolVal(True), v) for v in pre]
        recvd = [(res_by_t[t][j]["some"], res_by_t[t][j]["val"]) for t, prog in enumerate(progs_all) for j, op in enumerate(prog) if op == "recv"]
        maxlen = min(N, len(accepted))
        pend, quiet = ring_content(w, b, "q", (), kind, N, S, maxlen)
        R = recvd + pend
        cs = [quiet]
        for some, val in R: cs.append(z3.Implies(some, z3.Or([z3.And(ok, val == v) for ok, v in accepted])))
        for ok, v in accepted: cs.append(z3.Sum([z3.If(z3.And(some, val == v), BV(8, 1), BV(8, 0)) for some, val in R]) == z3.If(ok, BV(8, 1), BV(8, 0)))
        consistent = z3.And(cs)
        meta["oracle"] += "; and, once all threads returned, the ring is quiescent and holds exactly the accepted-and-not-yet-received events, each once (a rejected send changed nothing)"
    violation = cons + [z3.Or(z3.Or(stuck), b.any_panic(), b.err[S], z3.And(b.all_done(), z3.Not(consistent)))]
    witness = cons + [b.all_done()]
    meta["functions"] = sorted(set(x.split(">::")[-1] + " @" + (re.search(r"impl at (src/[^:]*)", x).group(1) if "impl at" in x else "") for x in it.functions_used))
    meta["intrinsics"] = sorted(it.intrinsics_used)
    rec, model = solve(name, b, violation, witness, timeout_s, ctx.workdir, meta)
    if model is not None:
        import replay
        rec["trace"] = b.decode_schedule(model)
        inp = {nm: model.eval(v, model_completion=True).as_long() for nm, v in w.inputs.items()}
        rec["inputs"] = inp
        rec["model_inconsistent_final_state"] = str(model.eval(z3.And(b.all_done(), z3.Not(consistent)), model_completion=True))
        which = [t + 1 for t, c in enumerate(stuck) if z3.is_true(model.eval(c, model_completion=True))]
        rec["model_stuck_threads"] = which
        def conv(prog, t): return [("send:%d" % inp.get("v%d_%d" % (t, j), 7)) if op == "send" else op for j, op in enumerate(prog)]
        progs = [conv(holder, 0)] + [conv(p, i + 1) for i, p in enumerate(workers)]
        prefill_vals = [inp["pre%d" % i] for i in range(k)]
        origins = [inp["origin"], inp.get("origin2", inp["origin"])]
        if kind in ("AtomicZeroCopy", "FullSyncZeroCopy"): origins = [inp.get("origin2", 0), inp["origin"]]
        segs = replay.segments_from_trace(rec["trace"])
        acct = replay.fifo_symptom("exactly_once", N, prefill_vals) if kind in ("AtomicMove", "FullSyncMove") and "reserve" not in holder else (lambda h: None)
        def symptom(h):
            if h["panics"]: return "panic: " + h["panics"][0]
            if h["stuck"]: return "thread(s) %s never return: they spin although every other thread has returned" % h["stuck"]
            if h["timeout"]: return "the native run does not terminate (a thread spins forever)"
            return acct(h)
        drain_after = ["drain"] * N if kind in ("AtomicMove", "FullSyncMove") and "reserve" not in holder else []
        found, why, tried = replay.search(kind, N, origins, prefill_vals, progs, drain_after, segs, symptom, max_runs=60)
        rec["native_runs"] = tried
        if found: rec.update(verdict="violation", symptom=found["symptom"], replayed=True, native_history=found["history"].get("events", []), native_segments=found["segments"])
        else: rec.update(verdict="inconclusive", why="model counterexample (stuck threads %s) did not reproduce natively: %s" % (which, why))
    return rec


def _c16_registry(add, tier, TO):
    def q(prop, name, qtier, kind, N, k, holder, workers):
        add(prop, name, qtier, lambda ctx: progress_query(ctx, name, kind, N, k, holder, workers, TO))
    # C16: rejected sends colliding at the 'full' boundary while a consumer makes room
    q("C16", "c16_atomic_two_rejected_vs_consumer_n2", "quick", "AtomicMove", 2, 2, ["recv"], [["send"], ["send"]])
    q("C16", "c16_atomic_rejected_vs_two_recv_n2", "quick", "AtomicMove", 2, 2, ["recv", "recv"], [["send"], ["send"]])
    q("C16", "c16_fullsync_two_rejected_vs_consumer_n2", "quick", "FullSyncMove", 2, 2, ["recv"], [["send"], ["send"]])
    q("C16", "c16_zc_atomic_rejected_vs_consumer_n2", "quick", "AtomicZeroCopy", 2, 2, ["recv"], [["send"], ["send"]])
    # the pool is exhausted although the QUEUE is not full (a reserved / held slot): the send must still be rejected promptly
    q("C16", "c16_zc_atomic_rejected_while_slot_held_n2", "quick", "AtomicZeroCopy", 2, 1, ["reserve"], [["send"]])
    q("C16", "c16_zc_fullsync_rejected_while_slot_held_n2", "quick", "FullSyncZeroCopy", 2, 1, ["reserve"], [["send"]])
    q("C16", "c16_atomic_three_senders_n2", "thorough", "AtomicMove", 2, 2, ["recv", "recv"], [["send"], ["send"], ["send"]])
    q("C16", "c16_zc_fullsync_rejected_vs_consumer_n2", "thorough", "FullSyncZeroCopy", 2, 2, ["recv"], [["send"], ["send"]])
    # C20: a suspended send_with_async = a reserved, unpublished slot whose owner went away
    q("C20", "c20_zc_atomic_suspended_vs_send_recv", "quick", "AtomicZeroCopy", 2, 0, ["reserve"], [["send"], ["recv"]])
    q("C20", "c20_zc_fullsync_suspended_vs_send_recv", "quick", "FullSyncZeroCopy", 2, 0, ["reserve"], [["send"], ["recv"]])
    # exactly full: the suspended send holds one slot, the other BUFFER_SIZE-1 are queued -- one more send must be REJECTED promptly
    q("C20", "c20_zc_atomic_suspended_full_vs_send", "quick", "AtomicZeroCopy", 2, 1, ["reserve"], [["send"]])
    q("C20", "c20_zc_fullsync_suspended_full_vs_send", "quick", "FullSyncZeroCopy", 2, 1, ["reserve"], [["send"]])
    q("C20", "c20_atomic_suspended_vs_recv", "quick", "AtomicMove", 2, 1, ["reserve"], [["recv"], ["recv"]])
    q("C20", "c20_atomic_suspended_vs_send", "quick", "AtomicMove", 2, 0, ["reserve"], [["send"]])
    q("C20", "c20_fullsync_suspended_vs_send", "quick", "FullSyncMove", 2, 0, ["reserve"], [["send"]])
    q("C20", "c20_fullsync_suspended_vs_recv", "quick", "FullSyncMove", 2, 1, ["reserve"], [["recv"]])




# =========================================================================================================
# C04: no lost wake-up (producer entry points x MutinyStream::poll_next x StreamsManagerBase waker protocol)
PRELUDE += """
fn __verif::drive(_1: Pin<&mut MutinyStream>, _2: &mut Context) -> () {
    let mut _0: ();
    let mut _3: Poll<Option<u32>>;
    let mut _4: isize;
    let mut _5: isize;
    let mut _6: ();

    bb0: {
        goto -> bb1;
    }

    bb1: {
        _3 = @src/mutiny_stream.rs:poll_next(copy _1, copy _2) -> [return: bb2, unwind continue];
    }

    bb2: {
        _4 = discriminant(_3);
        switchInt(move _4) -> [0: bb3, otherwise: bb5];
    }

    bb3: {
        _5 = discriminant(((_3 as Ready).0: Option<u32>));
        switchInt(move _5) -> [0: bb4, otherwise: bb1];
    }

    bb4: {
        return;
    }

    bb5: {
        _6 = __verif::park(copy _2) -> [return: bb1, unwind continue];
    }
}
"""
UNI_FILES = {"uni_move_full_sync": ("src/uni/channels/movable/full_sync.rs", "FullSync", "FullSyncMove"),
             "uni_move_atomic": ("src/uni/channels/movable/atomic.rs", "Atomic", "AtomicMove")}


def uni_channel_world(ctx, chan, N, MS, k, registered, nstreams=1):
    """channel with `nstreams` streams (ids 0.., task i polls stream i); `registered`: the streams have parked before (their wakers sit in the wakers array)"""
    cfile, cstruct, ring = UNI_FILES[chan]
    consts = {"BUFFER_SIZE": N, "MAX_STREAMS": MS}
    types = {"SlotType": "u32", "ItemType": "u32", "DerivedItemType": "u32", "ChannelConsumerType": "@" + cfile}
    w = World(ctx.index, ctx.type_files, consts, types)
    origin = w.sym("origin")
    fixed = os.environ.get("VERIF_M_ORIGIN")
    if fixed is not None: w.inputs["origin"] = origin = BV(32, int(fixed, 0))
    pre = [w.sym("pre%d" % i) for i in range(k)]
    cf = {nm: i for i, nm in enumerate(layout.struct_fields(cfile, cstruct))}
    ring_field = "channel" if "channel" in cf else "container"
    if ring == "AtomicMove": w.atomic_move("ch", (cf[ring_field],), N, origin, pre)
    else: w.full_sync_move("ch", (cf[ring_field], "*"), N, origin, pre)
    sf = {nm: i for i, nm in enumerate(w.fields("StreamsManagerBase"))}
    sm = (cf["streams_manager"],)
    w.decl("ch", sm + (sf["wakers"], "*"), "array", z3.BitVecSort(8), [BV(8, (j + 1) if (registered and j < nstreams) else 0) for j in range(MS)], n=MS)
    w.mem[("ch", sm + (sf["wakers"], "*"))]["codec"] = "opt_waker"
    w.decl("ch", sm + (sf["wakers_lock"],), "atomic", z3.BoolSort(), z3.BoolVal(False))
    w.decl("ch", sm + (sf["keep_streams_running"], "*"), "array", z3.BoolSort(), [z3.BoolVal(j < nstreams) for j in range(MS)], n=MS)
    w.decl("ch", sm + (sf["used_streams"], "*"), "array", z3.BitVecSort(32), [BV(32, j if j < nstreams else 0xFFFFFFFF) for j in range(MS)], n=MS)
    # the stream object (private to the consumer task)
    mf = {nm: i for i, nm in enumerate(layout.struct_fields("src/mutiny_stream.rs", "MutinyStream"))}
    for i in range(nstreams):
        w.decl("st%d" % i, (mf["stream_id"],), "frozen", None, value=BV(32, i))
        w.decl("st%d" % i, (mf["events_source"],), "frozen", None, value=Ptr("ch"))
    ring_base = (cf[ring_field],) if ring == "AtomicMove" else (cf[ring_field], "*")
    return w, Ptr("ch"), pre, cfile, ring, ring_base


MLOG_FILE = "src/multi/channels/reference/mmap_log.rs"


def log_channel_world(ctx, CAP, MS, nlisteners, k, registered):
    """the mmap-log Multi channel (MmapLog) over a log topic of CAP slots that already holds k events none of the `nlisteners`
    (new-events, Dynamic) listeners has consumed yet; the set of listeners is constant"""
    w, mm, cfid = log_world(ctx, CAP, {"MAX_STREAMS": MS}, {"DerivedItemType": "&u32", "ChannelConsumerType": "@" + MLOG_FILE})
    w.pre = [w.sym("pre%d" % i) for i in range(k)]
    w.mem[("mc", (cfid["publisher_tail"],))]["init"] = BV(64, k)
    w.mem[("mc", (cfid["consumer_tail"],))]["init"] = BV(64, k)
    cells = w.mem[("mc", (cfid["first_buffer_element"],))]["init"]
    for i in range(k): cells[i] = w.pre[i]
    cf = {nm: i for i, nm in enumerate(layout.struct_fields(MLOG_FILE, "MmapLog"))}
    w.decl("ch", (cf["log_queue"],), "frozen", None, value=mm)
    sf = {nm: i for i, nm in enumerate(w.fields("StreamsManagerBase"))}
    sm = (cf["streams_manager"],)
    w.decl("ch", sm + (sf["wakers"], "*"), "array", z3.BitVecSort(8), [BV(8, (j + 1) if (registered and j < nlisteners) else 0) for j in range(MS)], n=MS)
    w.mem[("ch", sm + (sf["wakers"], "*"))]["codec"] = "opt_waker"
    w.decl("ch", sm + (sf["wakers_lock"],), "atomic", z3.BoolSort(), z3.BoolVal(False))
    w.decl("ch", sm + (sf["keep_streams_running"], "*"), "array", z3.BoolSort(), [z3.BoolVal(j < nlisteners) for j in range(MS)], n=MS)
    w.decl("ch", sm + (sf["used_streams"], "*"), "frozen", None, value=[BV(32, j if j < nlisteners else 0xFFFFFFFF) for j in range(MS)])
    w.decl("ch", sm + (sf["used_streams_count"],), "frozen", None, value=BV(32, nlisteners))
    subf = {nm: i for i, nm in enumerate(layout.struct_fields(MM_FILE, "MMapMetaDynamicSubscriber"))}
    for j in range(nlisteners):
        base = (cf["subscribers"], j)
        w.decl("ch", base, "frozen", None, value=Enum("MMapMetaSubscriber", BV(64, 0), {}))
        pl = base + ("v:Dynamic", 0)
        w.decl("ch", pl + (subf["head"],), "atomic", z3.BitVecSort(64), BV(64, 0))
        w.decl("ch", pl + (subf["buffer"],), "frozen", None, value=Ptr("mc", (cfid["first_buffer_element"],)))
        w.decl("ch", pl + (subf["meta_mmap_log_topic"],), "frozen", None, value=mm)
    mf = {nm: i for i, nm in enumerate(layout.struct_fields("src/mutiny_stream.rs", "MutinyStream"))}
    for i in range(nlisteners):
        w.decl("st%d" % i, (mf["stream_id"],), "frozen", None, value=BV(32, i))
        w.decl("st%d" % i, (mf["events_source"],), "frozen", None, value=Ptr("ch"))
    w.log_keys = {"tail": ("mc", (cfid["consumer_tail"],)), "head0": ("ch", (cf["subscribers"], 0, "v:Dynamic", 0, subf["head"]))}
    return w, Ptr("ch"), cf


def stream_world(ctx, chan, N, MS, k, registered, nstreams=1):
    """Uni channel (one shared ring) or Multi arc channel (one ring per listener; the ring watched for 'pending' is listener 0's)"""
    if chan in UNI_FILES: return uni_channel_world(ctx, chan, N, MS, k, registered, nstreams=nstreams)
    if chan == "multi_mmap_log":
        w, ch, cf = log_channel_world(ctx, N, MS, nstreams, k, registered)
        return w, ch, w.pre, MLOG_FILE, "MmapLog", None
    w, ch, cfile, ring = multi_channel_world(ctx, chan, N, MS, nstreams, k=k, registered=registered)
    cf = {nm: i for i, nm in enumerate(layout.struct_fields(cfile, MULTI_FILES[chan][1]))}
    return w, ch, w.pre, cfile, ring, (cf["channels"], 0)


REPLAY_STREAM_KIND = {"multi_mmap_log": "StreamMultiMmapLog", "uni_move_full_sync": "StreamUniFullSync", "uni_move_atomic": "StreamUniAtomic", "multi_arc_atomic": "StreamMultiArcAtomic", "multi_arc_full_sync": "StreamMultiArcFullSync"}


def wake_query(ctx, name, chan, N, MS, k, producers, registered, timeout_s, slack=2):
    """producers: list of thread programs over {'send'}; one consumer task drives the stream like an executor (poll, park when Pending,
    re-poll when woken). Violation: all producers returned, the task is parked and not woken, yet an accepted event is pending."""
    w, ch, pre, cfile, ring, ring_base = stream_world(ctx, chan, N, MS, k, registered)
    it = w.interp()
    f_send = ctx.index.method("send", cfile)
    graphs = []; vals = []
    for t, prog in enumerate(producers):
        calls = []
        for j, op in enumerate(prog):
            v = w.sym("v%d_%d" % (t, j)); vals.append(v)
            if op == "reserved":        # reserve_slot + fill + try_send_reserved (the atomic channel's zero-copy entry point)
                if chan != "uni_move_atomic": raise EncodingError("reservations: movable atomic channel only")
                calls.append((ctx.helper("uma_reserve_fill_send_or_cancel"), [ch, v], "reserved"))
            else:
                calls.append((f_send, [ch, v], "send"))
        graphs.append(build_thread(it, t, calls, w.mem))
    T = len(producers)
    cx = Agg("Context", [Agg("Waker", [BV(8, 0)])])
    graphs.append(build_thread(it, T, [(ctx.helper("drive"), [Ptr("st0"), cx], "drive")], w.mem))
    cons_budget = 6 * (len(vals) + k) + 18
    S = sum(g.step_budget() for g in graphs[:-1]) + cons_budget + slack
    # a task that has parked before starts parked (not woken) unless events are already pending (then it was woken for them)
    b = BMC(graphs, w.mem, S, {"tasks": 1, "woken_init": {0: bool(registered and k > 0)}})
    S = b.S
    if ring == "MmapLog":
        pending = b.memv[S][w.log_keys["tail"]] - b.memv[S][w.log_keys["head0"]]
    else:
        fi = {nm: i for i, nm in enumerate(w.fields(ring))}
        head = b.memv[S][("ch", ring_base + (fi["head"],))]; tail = b.memv[S][("ch", ring_base + (fi["tail"],))]
        pending = tail - head
    producers_done = z3.And([b.is_kind(t, S, "done") for t in range(T)])
    lost = z3.And(producers_done, b.parked(T, S), pending != 0)
    meta = {"threads": ["%d:%s" % (i, "+".join(p)) for i, p in enumerate(producers)] + ["%d:executor task: poll_next / park when Pending / re-poll when woken" % T],
            "oracle": "no quiescent state with all producers returned, the stream's task parked and un-woken, and an accepted event still pending",
            "bounds": "%s<u32,%d,%d>, 1 stream (%s), pre-filled %d, origin any u32, steps<=%d" % (chan, N, MS, "parked before: waker registered" if registered else "never polled before", k, S)}
    violation = [z3.Or(lost, b.any_panic(), b.err[S])]
    witness = [producers_done, b.parked(T, S), pending == 0]
    meta["functions"] = sorted(set(x.split(">::")[-1] + " @" + (re.search(r"impl at (src/[^:]*)", x).group(1) if "impl at" in x else "") for x in it.functions_used))
    meta["intrinsics"] = sorted(it.intrinsics_used)
    rec, model = solve(name, b, violation, witness, timeout_s, ctx.workdir, meta)
    if model is not None:
        import replay
        rec["trace"] = b.decode_schedule(model)
        inp = {nm: model.eval(v, model_completion=True).as_long() for nm, v in w.inputs.items()}
        rec["inputs"] = inp
        rec["model_final"] = {"pending": str(model.eval(pending, model_completion=True)), "err": str(model.eval(b.err[S], model_completion=True))}
        progs = [[("reserve_send_or_cancel:%d" if op == "reserved" else "send:%d") % inp["v%d_%d" % (t, j)] for j, op in enumerate(prog)] for t, prog in enumerate(producers)] + [["drive"]]
        prefill_vals = [inp["pre%d" % i] for i in range(k)]
        segs = replay.segments_from_trace(rec["trace"])
        def symptom(h):
            if h["panics"]: return "panic: " + h["panics"][0]
            fin = [e for e in h["events"] if e["op"] == "quiescent"]
            if fin and fin[-1]["res"][:1] == ["parked"] and int(fin[-1]["res"][1]) > 0:
                return "lost wake-up: producers returned, the stream's task (%s) is parked and was not woken, %s accepted event(s) pending" % (fin[-1]["res"][2], fin[-1]["res"][1])
            return None
        kind = REPLAY_STREAM_KIND[chan] + ("Parked" if registered else "Fresh") + ":%d:1" % MS
        found, why, tried = replay.search(kind, N, [inp.get("origin", 0)], prefill_vals, progs, [], segs, symptom, max_runs=250)
        rec["native_runs"] = tried
        if found: rec.update(verdict="violation", symptom=found["symptom"], replayed=True, native_history=found["history"].get("events", []), native_segments=found["segments"])
        else: rec.update(verdict="inconclusive", why="model counterexample (%s) did not reproduce natively: %s" % (rec["model_final"], why))
    return rec


def _c04_registry(add, tier, TO):
    def q(name, qtier, chan, N, MS, k, producers, registered, slack=2):
        add("C04", name, qtier, lambda ctx: wake_query(ctx, name, chan, N, MS, k, producers, registered, TO, slack))
    q("c04_full_sync_first_park_vs_send", "quick", "uni_move_full_sync", 2, 1, 0, [["send"]], False)
    q("c04_full_sync_parked_vs_send", "quick", "uni_move_full_sync", 2, 1, 0, [["send"]], True)
    q("c04_atomic_first_park_vs_send", "quick", "uni_move_atomic", 2, 1, 0, [["send"]], False)
    q("c04_atomic_parked_vs_two_sends", "quick", "uni_move_atomic", 2, 1, 0, [["send", "send"]], True)
    q("c04_atomic_parked_k2_vs_send_n4", "quick", "uni_move_atomic", 4, 1, 2, [["send"]], True)
    q("c04_full_sync_parked_k2_vs_send_n4", "quick", "uni_move_full_sync", 4, 1, 2, [["send"]], True)
    q("c04_atomic_parked_vs_reserved_ms1", "quick", "uni_move_atomic", 2, 1, 0, [["reserved"]], True)
    q("c04_atomic_parked_vs_reserved_ms2", "quick", "uni_move_atomic", 2, 2, 0, [["reserved"]], True)
    q("c04_atomic_parked_vs_send_ms2", "quick", "uni_move_atomic", 2, 2, 0, [["send"]], True)
    q("c04_multi_arc_atomic_first_park_vs_send", "quick", "multi_arc_atomic", 2, 1, 0, [["send"]], False)
    q("c04_multi_arc_atomic_parked_vs_send", "quick", "multi_arc_atomic", 2, 1, 0, [["send"]], True)
    q("c04_multi_arc_full_sync_parked_vs_send", "quick", "multi_arc_full_sync", 2, 1, 0, [["send"]], True)
    q("c04_multi_arc_atomic_parked_k2_vs_send_n4", "quick", "multi_arc_atomic", 4, 1, 2, [["send"]], True)
    q("c04_multi_arc_full_sync_parked_k2_vs_send_n4", "thorough", "multi_arc_full_sync", 4, 1, 2, [["send"]], True)
    q("c04_mmap_log_parked_vs_send", "quick", "multi_mmap_log", 4, 1, 0, [["send"]], True)
    q("c04_mmap_log_parked_vs_two_producers", "quick", "multi_mmap_log", 4, 1, 0, [["send"], ["send"]], True)
    q("c04_mmap_log_first_park_vs_send", "thorough", "multi_mmap_log", 4, 1, 0, [["send"]], False)
    q("c04_full_sync_parked_vs_two_producers", "thorough", "uni_move_full_sync", 2, 1, 0, [["send"], ["send"]], True)
    q("c04_atomic_parked_vs_three_sends_n4", "thorough", "uni_move_atomic", 4, 1, 0, [["send", "send", "send"]], True)


def _c05_registry(add, tier, TO):
    def fq(name, qtier, kind, N, k, threads):
        add("C05", name, qtier, lambda ctx: fifo_query(ctx, name, kind, N, k, threads, "exactly_once", 6, TO, opts={"needs_drop": True}))
    # payload WITH a destructor, pool exhausted: a consumer releases a payload while a producer is waiting for a slot
    fq("c05_zc_atomic_destructor_vs_reuse_n2", "quick", "AtomicZeroCopy", 2, 2, [["send"], ["recv"]])
    fq("c05_zc_fullsync_destructor_vs_reuse_n2", "thorough", "FullSyncZeroCopy", 2, 2, [["send"], ["recv"]])
    def q(name, qtier, container, N, threads, slack=3):
        add("C05", name, qtier, lambda ctx: arc_query(ctx, name, container, N, threads, slack, TO))
    q("c05_arc_last_two_drops", "quick", "AtomicMove", 2, [["read", "drop"], ["drop"]])
    q("c05_arc_clone_drop_vs_drop", "quick", "AtomicMove", 2, [["clone_drop", "drop"], ["read", "drop"]])
    q("c05_arc_three_droppers", "thorough", "AtomicMove", 2, [["drop"], ["drop"], ["read", "drop"]])
    q("c05_arc_fullsync_last_two_drops", "thorough", "FullSyncMove", 2, [["read", "drop"], ["drop"]])


# =========================================================================================================
# C07: cancel / end terminates exactly the targeted streams, even parked ones
def cancel_query(ctx, name, chan, N, MS, nstreams, k, cancel, producers, registered, timeout_s, slack=2):
    """`nstreams` streams (ids 0..nstreams-1, task i drives stream i like an executor); thread programs:
       cancel = ('all',) -> <channel>::cancel_all_streams()   |   ('one', id) -> StreamsManagerBase::cancel_stream(id)
       producers: list of programs over {'send'} (concurrent with the cancel request)
    Violation: the canceller (and all producers) returned, yet a TARGETED stream's task is parked and un-woken (it will never answer
    end-of-stream); or a panic / invalid access. Targeted tasks that return have answered `None` (drive() returns only then)."""
    w, ch, pre, cfile, ring, ring_base = stream_world(ctx, chan, N, MS, k, registered, nstreams=nstreams)
    it = w.interp()
    f_send = ctx.index.method("send", cfile)
    graphs = []; vals = []
    cf = {nm: i for i, nm in enumerate(layout.struct_fields(cfile, "MmapLog" if chan == "multi_mmap_log" else (UNI_FILES.get(chan) or MULTI_FILES[chan])[1]))}
    if cancel[0] == "all":
        graphs.append(build_thread(it, 0, [(ctx.index.method("cancel_all_streams", cfile), [ch], "cancel_all")], w.mem)); targeted = list(range(nstreams))
    else:
        graphs.append(build_thread(it, 0, [(fn_of(w, "StreamsManagerBase", "cancel_stream"), [Ptr("ch", (cf["streams_manager"],)), BV(32, cancel[1])], "cancel_stream")], w.mem)); targeted = [cancel[1]]
    for t, prog in enumerate(producers):
        calls = []
        for j, op in enumerate(prog):
            v = w.sym("v%d_%d" % (t, j)); vals.append(v); calls.append((f_send, [ch, v], "send"))
        graphs.append(build_thread(it, 1 + t, calls, w.mem))
    P = 1 + len(producers)
    for i in range(nstreams):
        cx = Agg("Context", [Agg("Waker", [BV(8, i)])])
        graphs.append(build_thread(it, P + i, [(ctx.helper("drive"), [Ptr("st%d" % i), cx], "drive")], w.mem))
    cons_budget = 6 * (len(vals) + k) + 18
    S = sum(g.step_budget() for g in graphs[:P]) + cons_budget * nstreams + slack
    b = BMC(graphs, w.mem, S, {"tasks": nstreams, "woken_init": {i: bool(registered and k > 0) for i in range(nstreams)}})
    S = b.S
    others_done = z3.And([b.is_kind(t, S, "done") for t in range(P)])
    hung = z3.Or([z3.And(others_done, b.parked(P + i, S)) for i in targeted])
    # untargeted streams must not be ended by the request (their task returns only on end-of-stream)
    wrongly_ended = z3.Or([b.is_kind(P + i, S, "done") for i in range(nstreams) if i not in targeted] + [z3.BoolVal(False)])
    meta = {"threads": ["0:%s" % ("cancel_all_streams" if cancel[0] == "all" else "cancel_stream(%d)" % cancel[1])] + ["%d:%s" % (i + 1, "+".join(p)) for i, p in enumerate(producers)]
                       + ["%d:executor task of stream %d: poll_next / park when Pending / re-poll when woken / return on end-of-stream" % (P + i, i) for i in range(nstreams)],
            "oracle": "once the cancel request (and every send) has returned no targeted stream is left parked without a pending wake-up: each answers end-of-stream; untargeted streams are not ended; no panic / invalid access",
            "bounds": "%s<u32,%d,%d>, %d stream(s) (%s), pre-filled %d, origin any u32, steps<=%d" % (chan, N, MS, nstreams, "parked before: wakers registered" if registered else "never polled before", k, S)}
    violation = [z3.Or(hung, wrongly_ended, b.any_panic(), b.err[S])]
    witness = [others_done] + [b.is_kind(P + i, S, "done") for i in targeted]
    meta["functions"] = sorted(set(x.split(">::")[-1] + " @" + (re.search(r"impl at (src/[^:]*)", x).group(1) if "impl at" in x else "") for x in it.functions_used))
    meta["intrinsics"] = sorted(it.intrinsics_used)
    rec, model = solve(name, b, violation, witness, timeout_s, ctx.workdir, meta)
    if model is not None:
        import replay
        rec["trace"] = b.decode_schedule(model)
        inp = {nm: model.eval(v, model_completion=True).as_long() for nm, v in w.inputs.items()}
        rec["inputs"] = inp
        rec["model_final"] = {"hung": str(model.eval(hung, model_completion=True)), "wrongly_ended": str(model.eval(wrongly_ended, model_completion=True)),
                              "err": str(model.eval(b.err[S], model_completion=True))}
        progs = [["cancel_all" if cancel[0] == "all" else "cancel:%d" % cancel[1]]]
        progs += [["send:%d" % inp["v%d_%d" % (t, j)] for j in range(len(prog))] for t, prog in enumerate(producers)]
        progs += [["drive:%d" % i] for i in range(nstreams)]
        prefill_vals = [inp["pre%d" % i] for i in range(k)]
        segs = replay.segments_from_trace(rec["trace"])
        def symptom(h):
            if h["panics"]: return "panic: " + h["panics"][0]
            fin = [e for e in h["events"] if e["op"] == "quiescent"]
            if fin and fin[-1]["res"][:1] == ["parked"]:
                hung_ = [x for x in fin[-1]["res"][2].split(",") if x.isdigit() and int(x) in targeted]
                if hung_: return "cancelled stream(s) %s never answer end-of-stream: the cancel request returned, the task is parked and was not woken" % ",".join(hung_)
            return None
        kind = REPLAY_STREAM_KIND[chan] + ("Parked" if registered else "Fresh") + ":%d:%d" % (MS, nstreams)
        found, why, tried = replay.search(kind, N, [inp.get("origin", 0)], prefill_vals, progs, [], segs, symptom, max_runs=250)
        rec["native_runs"] = tried
        if found: rec.update(verdict="violation", symptom=found["symptom"], replayed=True, native_history=found["history"].get("events", []), native_segments=found["segments"])
        else: rec.update(verdict="inconclusive", why="model counterexample (%s) did not reproduce natively: %s" % (rec["model_final"], why))
    return rec


def _c07_registry(add, tier, TO):
    def q(name, qtier, chan, N, MS, nstreams, k, cancel, producers, registered, slack=2):
        add("C07", name, qtier, lambda ctx: cancel_query(ctx, name, chan, N, MS, nstreams, k, cancel, producers, registered, TO, slack))
    q("c07_atomic_cancel_all_vs_first_poll", "quick", "uni_move_atomic", 2, 1, 1, 0, ("all",), [], False)
    q("c07_atomic_cancel_all_vs_parked_k0", "quick", "uni_move_atomic", 2, 1, 1, 0, ("all",), [], True)      # parked, waker registered, nothing buffered
    q("c07_atomic_cancel_all_vs_parked_k1", "quick", "uni_move_atomic", 2, 1, 1, 1, ("all",), [], True)
    q("c07_full_sync_cancel_all_vs_first_poll", "quick", "uni_move_full_sync", 2, 1, 1, 0, ("all",), [], False)
    q("c07_atomic_cancel_one_of_two", "quick", "uni_move_atomic", 2, 2, 2, 0, ("one", 1), [], False)
    q("c07_atomic_cancel_all_vs_send", "quick", "uni_move_atomic", 2, 1, 1, 0, ("all",), [["send"]], False)
    q("c07_multi_arc_atomic_cancel_all_vs_first_poll", "quick", "multi_arc_atomic", 2, 1, 1, 0, ("all",), [], False)
    q("c07_multi_arc_atomic_cancel_all_vs_parked_k1", "quick", "multi_arc_atomic", 2, 1, 1, 1, ("all",), [], True)
    q("c07_mmap_log_cancel_all_vs_first_poll", "quick", "multi_mmap_log", 4, 1, 1, 0, ("all",), [], False)
    q("c07_atomic_cancel_all_two_streams", "thorough", "uni_move_atomic", 2, 2, 2, 1, ("all",), [], False)
    q("c07_full_sync_cancel_all_vs_send_parked", "thorough", "uni_move_full_sync", 2, 1, 1, 0, ("all",), [["send"]], True)
    q("c07_full_sync_cancel_one_of_two_parked", "thorough", "uni_move_full_sync", 2, 2, 2, 0, ("one", 0), [], True)


# =========================================================================================================
# C03: Multi channels -- every listener gets every accepted event exactly once, in producer order
MULTI_FILES = {"multi_arc_atomic": ("src/multi/channels/arc/atomic.rs", "Atomic", "AtomicMove"),
               "multi_arc_full_sync": ("src/multi/channels/arc/full_sync.rs", "FullSync", "FullSyncMove")}


def multi_channel_world(ctx, chan, N, MS, nlisteners, k=0, registered=False):
    """Multi channel with `nlisteners` listeners (stream ids 0..nlisteners-1), every per-listener queue empty, origin any u32 (shared
    by all rings -- they are created together)"""
    cfile, cstruct, ring = MULTI_FILES[chan]
    consts = {"BUFFER_SIZE": N, "MAX_STREAMS": MS}
    types = {"SlotType": "u32", "ItemType": "u32", "DerivedItemType": "u32", "ChannelConsumerType": "@" + cfile}
    w = World(ctx.index, ctx.type_files, consts, types)
    origin = w.sym("origin")
    fixed = os.environ.get("VERIF_M_ORIGIN")
    if fixed is not None: w.inputs["origin"] = origin = BV(32, int(fixed, 0))
    cf = {nm: i for i, nm in enumerate(layout.struct_fields(cfile, cstruct))}
    w.pre = [w.sym("pre%d" % i) for i in range(k)]        # every listener's queue holds the same k events (they were fanned out to all)
    for j in range(MS):
        content = w.pre if j < nlisteners else []
        if ring == "AtomicMove": w.atomic_move("ch", (cf["channels"], j), N, origin, content)
        else: w.full_sync_move("ch", (cf["channels"], j), N, origin, content)
    sf = {nm: i for i, nm in enumerate(w.fields("StreamsManagerBase"))}
    sm = (cf["streams_manager"],)
    w.decl("ch", sm + (sf["wakers"], "*"), "array", z3.BitVecSort(8), [BV(8, (j + 1) if (registered and j < nlisteners) else 0) for j in range(MS)], n=MS)
    mf = {nm: i for i, nm in enumerate(layout.struct_fields("src/mutiny_stream.rs", "MutinyStream"))}
    for i in range(nlisteners):
        w.decl("st%d" % i, (mf["stream_id"],), "frozen", None, value=BV(32, i))
        w.decl("st%d" % i, (mf["events_source"],), "frozen", None, value=Ptr("ch"))
    w.mem[("ch", sm + (sf["wakers"], "*"))]["codec"] = "opt_waker"
    w.decl("ch", sm + (sf["wakers_lock"],), "atomic", z3.BoolSort(), z3.BoolVal(False))
    w.decl("ch", sm + (sf["keep_streams_running"], "*"), "array", z3.BoolSort(), [z3.BoolVal(j < nlisteners) for j in range(MS)], n=MS)
    # the set of listeners does not change during these queries: the live-stream list is a constant array (reads are not visible operations)
    w.decl("ch", sm + (sf["used_streams"], "*"), "frozen", None, value=[BV(32, j if j < nlisteners else 0xFFFFFFFF) for j in range(MS)])
    w.decl("ch", sm + (sf["used_streams_count"],), "atomic", z3.BitVecSort(32), BV(32, nlisteners))
    w.cfg_extra = {"sleep_is_unreachable": True}      # sequences are shorter than the buffer: the sleep-and-retry of a full listener queue must not be reached
    return w, Ptr("ch"), cfile, ring


def ring_content(w, b, root, base, ring, N, S, maxlen):
    """(list of (present, value) for the first `maxlen` pending entries of a ring in the FINAL state, quiescence formula)"""
    fi = {nm: i for i, nm in enumerate(w.fields(ring))}
    mv = b.memv[S]
    head = mv[(root, base + (fi["head"],))]; tail = mv[(root, base + (fi["tail"],))]
    bufkey = (root, base + (fi["buffer"], "*"))
    cells = mv[bufkey]
    quiet = z3.BoolVal(True)
    if ring == "AtomicMove":
        quiet = z3.And(mv[(root, base + (fi["dequeuer_head"],))] == head, mv[(root, base + (fi["enqueuer_tail"],))] == tail)
    else:
        quiet = z3.Not(mv[(root, base + (fi["concurrency_guard"],))])
    ln = tail - head
    out = []
    for k in range(maxlen):
        idx = z3.URem(head + k, BV(head.size(), N))
        val = cells[-1]
        for j in reversed(range(len(cells) - 1)): val = z3.If(idx == j, cells[j], val)
        out.append((z3.UGT(ln, BV(ln.size(), k)), val))
    return out, z3.And(quiet, z3.ULE(ln, BV(ln.size(), maxlen)))


def multi_query(ctx, name, chan, N, MS, nlisteners, producers, consumers, timeout_s, slack=2):
    """producers: per producer thread the number of send() calls; consumers: per listener the number of consume() calls made
    CONCURRENTLY by that listener's thread. What a listener has not consumed when all threads are done is read from the FINAL state
    of its queue (entries head..tail of its ring, which must be quiescent) -- that is what a later drain would yield.
    Oracle per listener: concurrent yields followed by the queue content are exactly the sent values, each once, the events of one
    producer in that producer's send order."""
    w, ch, cfile, ring = multi_channel_world(ctx, chan, N, MS, nlisteners)
    it = w.interp()
    f_send = ctx.index.method("send", cfile); f_consume = ctx.index.method("consume", cfile)
    cf = {nm: i for i, nm in enumerate(layout.struct_fields(cfile, MULTI_FILES[chan][1]))}
    graphs = []; sent = []
    for t, cnt in enumerate(producers):
        vs = [w.sym("v%d_%d" % (t, j)) for j in range(cnt)]; sent.append(vs)
        graphs.append(build_thread(it, t, [(f_send, [ch, v], "send") for v in vs], w.mem))
    P = len(producers)
    cthreads = {}
    for i in range(nlisteners):
        if consumers[i] > 0:
            cthreads[i] = len(graphs)
            graphs.append(build_thread(it, len(graphs), [(f_consume, [ch, BV(32, i)], "consume")] * consumers[i], w.mem))
    total = sum(producers)
    S = sum(g.step_budget() for g in graphs) + slack
    b = BMC(graphs, w.mem, S, {})
    S = b.S
    allv = [v for vs in sent for v in vs]
    cons = [allv[i] != allv[j2] for i in range(len(allv)) for j2 in range(i + 1, len(allv))]
    for v in allv: cons.append(z3.And(z3.UGE(v, BV(32, 0x1000)), z3.ULT(v, BV(32, POISON))))
    good = []
    for i in range(nlisteners):
        rc = b.results(cthreads[i], lambda j, v: ex_option_u32(v)) if i in cthreads else []
        pend, quiet = ring_content(w, b, "ch", (cf["channels"], i), ring, N, S, total)
        good.append(quiet)
        R = [(r["some"], r["val"]) for r in rc] + pend
        for (some, val) in R: good.append(z3.Implies(some, z3.Or([val == v for v in allv])))                      # nothing unsent
        for v in allv: good.append(z3.Sum([z3.If(z3.And(some, val == v), BV(8, 1), BV(8, 0)) for some, val in R]) == 1)  # exactly once
        for vs in sent:                                                                                         # producer order
            for x in range(len(vs) - 1):
                good.append(z3.Or([z3.And(R[j][0], R[j][1] == vs[x], R[k2][0], R[k2][1] == vs[x + 1]) for j in range(len(R)) for k2 in range(j + 1, len(R))]))
    res_send = [b.results(t, lambda j, v: {"ok": v.discr == 0}) for t in range(P)]
    accepted = z3.And([r["ok"] for rs in res_send for r in rs])
    meta = {"threads": ["%d: %d x send" % (t, c) for t, c in enumerate(producers)] + ["%d: listener %d: %d x consume (concurrent)" % (cthreads[i], i, consumers[i]) for i in cthreads]
                       + ["listeners' unconsumed events are read from the final state of their queues"],
            "oracle": "every listener receives (or still has queued) every sent event exactly once, nothing unsent, each producer's events in its send order; every send reports success; queues quiescent at the end; no panic / invalid access",
            "bounds": "%s<u32,%d,%d>, %d listener(s), origin any u32, steps<=%d, payloads distinct symbolic u32; std::sync::Arc carried as its content" % (chan, N, MS, nlisteners, S)}
    violation = cons + [z3.Or(z3.And(b.all_done(), z3.Not(z3.And(good + [accepted]))), b.any_panic(), b.err[S])]
    witness = cons + [b.all_done()]
    meta["functions"] = sorted(set(x.split(">::")[-1] + " @" + (re.search(r"impl at (src/[^:]*)", x).group(1) if "impl at" in x else "") for x in it.functions_used))
    meta["intrinsics"] = sorted(it.intrinsics_used)
    rec, model = solve(name, b, violation, witness, timeout_s, ctx.workdir, meta)
    if model is not None:
        import replay
        rec["trace"] = b.decode_schedule(model)
        inp = {nm: model.eval(v, model_completion=True).as_long() for nm, v in w.inputs.items()}
        rec["inputs"] = inp
        progs = [["send:%d" % inp["v%d_%d" % (t, j)] for j in range(c)] for t, c in enumerate(producers)]
        progs += [["recv:%d" % i] * consumers[i] for i in range(nlisteners) if consumers[i] > 0]
        afterp = ["drain:%d" % i for i in range(nlisteners) for _ in range(total + 1)]
        segs = replay.segments_from_trace(rec["trace"])
        sent_vals = [[inp["v%d_%d" % (t, j)] for j in range(c)] for t, c in enumerate(producers)]
        nthreads = len(progs)
        def symptom(h):
            if h["panics"]: return "panic: " + h["panics"][0]
            if h["stuck"] or h["timeout"]: return None
            for i in range(nlisteners):
                evs = sorted([e for e in h["events"] if e["op"] in ("recv", "drain") and e["arg"] == i], key=lambda e: (e["thread"] >= nthreads, e["call"]))
                got = [int(e["res"][1]) for e in evs if e["res"][:1] == ["some"]]
                flat = [v for vs in sent_vals for v in vs]
                for v in got:
                    if v not in flat: return "listener %d yielded %d which was never sent" % (i, v)
                for v in flat:
                    if got.count(v) != 1: return "listener %d yielded event %d %d times (sent once): %s" % (i, v, got.count(v), got)
                for vs in sent_vals:
                    idx = [got.index(v) for v in vs]
                    if idx != sorted(idx): return "listener %d saw one producer's events out of order: %s" % (i, got)
            return None
        kind = {"multi_arc_atomic": "MultiArcAtomic", "multi_arc_full_sync": "MultiArcFullSync"}[chan] + ":%d:%d" % (MS, nlisteners)
        found, why, tried = replay.search(kind, N, [inp["origin"]], [], progs, afterp, segs, symptom, max_runs=250)
        rec["native_runs"] = tried
        if found: rec.update(verdict="violation", symptom=found["symptom"], replayed=True, native_history=found["history"].get("events", []), native_segments=found["segments"])
        else: rec.update(verdict="inconclusive", why="model counterexample did not reproduce natively: %s" % why)
    return rec


def _c03_registry(add, tier, TO):
    def q(name, qtier, chan, N, MS, nl, producers, consumers, slack=2):
        add("C03", name, qtier, lambda ctx: multi_query(ctx, name, chan, N, MS, nl, producers, consumers, TO, slack))
    q("c03_arc_atomic_2p_1l", "quick", "multi_arc_atomic", 4, 2, 1, [1, 1], [0])
    q("c03_arc_atomic_1p_2l_c", "quick", "multi_arc_atomic", 4, 2, 2, [1], [1, 0])
    q("c03_arc_full_sync_2p_1l", "quick", "multi_arc_full_sync", 4, 2, 1, [1, 1], [0])
    q("c03_arc_atomic_1p2_2l", "thorough", "multi_arc_atomic", 4, 2, 2, [2], [1, 0])
    q("c03_arc_atomic_2p_1l_c", "thorough", "multi_arc_atomic", 4, 2, 1, [1, 1], [1])
    q("c03_arc_atomic_2p_2l", "thorough", "multi_arc_atomic", 4, 2, 2, [1, 1], [1, 0])
    q("c03_arc_full_sync_1p2_2l", "thorough", "multi_arc_full_sync", 4, 2, 2, [2], [1, 0])
    q("c03_arc_atomic_2p2_1l", "thorough", "multi_arc_atomic", 4, 2, 1, [2, 1], [1])


# =========================================================================================================
# C09: the log (mmap) topic -- full ordered replay; old/new subscriptions partition the history
MM_FILE = "src/ogre_std/ogre_queues/log_topics/mmap_meta.rs"


def _log_helpers():
    """pseudo-MIR thread programs of a listener: subscribe, consume `kc` times concurrently with the publishers, wait until the
    publishers have returned, drain `kd` times. Results are returned as one tuple (Option<u32>...)."""
    out = []
    def consume_block(bb, sub_local, self_type, res_local, nxt):
        # res = consume(&sub, getter, report_empty, report_len) ; res_local = value behind the yielded reference
        return """
    bb%d: {
        _90 = @%s:consume#%s(copy %s, copy _2, copy _3, copy _4) -> [return: bb%d, unwind continue];
    }

    bb%d: {
        %s = __verif::opt_deref(move _90) -> [return: bb%d, unwind continue];
    }
""" % (bb, MM_FILE, self_type, sub_local, bb + 1, bb + 1, res_local, nxt)
    for kind in ("joined", "newonly", "split"):
        for kc in (0, 1, 2):
            for kd in (2, 3, 4):
                name = "__verif::log_%s_%d_%d" % (kind, kc, kd)
                nres = (kc + kd) if kind != "split" else (kc + kd + kd + 1)
                lets = "".join("    let mut _%d: Option<u32>;\n" % (20 + i) for i in range(nres))
                body = ""
                bb = 1
                if kind == "split":
                    sub_fn = "subscribe_to_separated_old_and_new_events"
                    pre = """
    bb0: {
        _5 = @%s:%s(copy _1) -> [return: bb1, unwind continue];
    }

    bb1: {
        _6 = &(_5.0: MMapMetaFixedSubscriber);
        _7 = &(_5.1: MMapMetaDynamicSubscriber);
        _8 = copy ((_5.0: MMapMetaFixedSubscriber).2: usize);
        goto -> bb2;
    }
""" % (MM_FILE, sub_fn)
                    bb = 2; r = 20
                    for i in range(kc):          # the NEW stream is polled concurrently with the publishers
                        body += consume_block(bb, "_7", "MMapMetaDynamicSubscriber", "_%d" % r, bb + 2); bb += 2; r += 1
                    body += "\n    bb%d: {\n        _91 = __verif::await_others() -> [return: bb%d, unwind continue];\n    }\n" % (bb, bb + 1); bb += 1
                    for i in range(kd):
                        body += consume_block(bb, "_7", "MMapMetaDynamicSubscriber", "_%d" % r, bb + 2); bb += 2; r += 1
                    for i in range(kd + 1):      # the OLD stream: kd+1 polls (the last one must find it ended)
                        body += consume_block(bb, "_6", "MMapMetaFixedSubscriber", "_%d" % r, bb + 2); bb += 2; r += 1
                    ret = "(" + ", ".join(["copy _8"] + ["move _%d" % (20 + i) for i in range(nres)]) + ")"
                    extra_lets = "    let mut _5: (MMapMetaFixedSubscriber, MMapMetaDynamicSubscriber);\n    let mut _6: &MMapMetaFixedSubscriber;\n    let mut _7: &MMapMetaDynamicSubscriber;\n    let mut _8: usize;\n"
                else:
                    sub_fn = "subscribe_to_joined_old_and_new_events" if kind == "joined" else "subscribe_to_new_events_only"
                    pre = """
    bb0: {
        _5 = @%s:%s(copy _1) -> [return: bb1, unwind continue];
    }

    bb1: {
        _6 = &_5;
        _8 = copy (_5.0: usize);
        goto -> bb2;
    }
""" % (MM_FILE, sub_fn)
                    bb = 2; r = 20
                    for i in range(kc):
                        body += consume_block(bb, "_6", "MMapMetaDynamicSubscriber", "_%d" % r, bb + 2); bb += 2; r += 1
                    body += "\n    bb%d: {\n        _91 = __verif::await_others() -> [return: bb%d, unwind continue];\n    }\n" % (bb, bb + 1); bb += 1
                    for i in range(kd):
                        body += consume_block(bb, "_6", "MMapMetaDynamicSubscriber", "_%d" % r, bb + 2); bb += 2; r += 1
                    ret = "(" + ", ".join(["copy _8"] + ["move _%d" % (20 + i) for i in range(nres)]) + ")"
                    extra_lets = "    let mut _5: MMapMetaDynamicSubscriber;\n    let mut _6: &MMapMetaDynamicSubscriber;\n    let mut _8: usize;\n"
                out.append("fn %s(_1: &Arc<MMapMeta>, _2: G, _3: E, _4: L) -> () {\n    let mut _0: ();\n%s%s    let mut _90: Option<&u32>;\n    let mut _91: ();\n%s%s\n    bb%d: {\n        _0 = %s;\n        return;\n    }\n}\n"
                           % (name, extra_lets, lets, pre, body, bb, ret))
    out.append("""fn __verif::opt_deref(_1: Option<&u32>) -> Option<u32> {
    let mut _0: Option<u32>;
    let mut _2: isize;
    let mut _3: &u32;
    let mut _4: u32;

    bb0: {
        _2 = discriminant(_1);
        switchInt(move _2) -> [0: bb1, otherwise: bb2];
    }

    bb1: {
        _0 = Option::<u32>::None;
        return;
    }

    bb2: {
        _3 = copy ((_1 as Some).0: &u32);
        _4 = copy (*_3);
        _0 = Option::<u32>::Some(copy _4);
        return;
    }
}
""")
    return "\n".join(out)


PRELUDE += _log_helpers()


def log_world(ctx, CAP, consts=None, types_extra=None):
    consts = dict(consts or {})
    types = {"SlotType": "u32", "ItemType": "u32", "GetterReturnType": "&u32"}
    types.update(types_extra or {})
    w = World(ctx.index, ctx.type_files, consts, types)
    mf = {nm: i for i, nm in enumerate(layout.struct_fields(MM_FILE, "MMapMeta"))}
    cfid = {nm: i for i, nm in enumerate(layout.struct_fields(MM_FILE, "MMapContents"))}
    u64 = z3.BitVecSort(64)
    w.decl("mm", (mf["mmap_contents"],), "frozen", None, value=Ptr("mc"))
    w.decl("mm", (mf["buffer"],), "frozen", None, value=Ptr("mc", (cfid["first_buffer_element"],)))
    w.decl("mc", (cfid["publisher_tail"],), "atomic", u64, BV(64, 0))
    w.decl("mc", (cfid["consumer_tail"],), "atomic", u64, BV(64, 0))
    w.decl("mc", (cfid["slice_length"],), "atomic", u64, BV(64, CAP))
    w.decl("mc", (cfid["first_buffer_element"],), "array", z3.BitVecSort(32), [BV(32, POISON + j) for j in range(CAP)], n=CAP)
    return w, Ptr("mm"), cfid


def log_query(ctx, name, CAP, publishers, listeners, timeout_s, slack=2):
    """publishers: per publisher thread the number of publish_movable() calls; listeners: list of (kind, kc) with kind in
    'joined' | 'newonly' | 'split' and kc = consumes made concurrently with the publishers (then each listener waits for the
    publishers to return and drains)."""
    w, mm, cfid = log_world(ctx, CAP)
    it = w.interp()
    f_pub = [f for f in ctx.index.by_method.get("publish_movable", []) if f.file and MM_FILE in f.file]
    if len(f_pub) != 1: raise EncodingError("MMapMeta::publish_movable not found")
    mlog = "src/multi/channels/reference/mmap_log.rs"
    cons_fn = [f for f in ctx.index.by_method.get("consume", []) if f.file and mlog in f.file]
    if len(cons_fn) != 1: raise EncodingError("MmapLog::consume not found")
    clo = sorted([x for x in ctx.index.closures.values() if x.name.startswith(cons_fn[0].name + "::{closure#")], key=lambda x: x.name)
    if len(clo) < 3: raise EncodingError("closures of MmapLog::consume not found")
    getter, report_empty, report_len = [Agg("closure", [], c_) for c_ in clo[:3]]      # |slot| &*slot, || false, |_len| {}
    graphs = []; sent = []
    total = sum(publishers)
    for t, cnt in enumerate(publishers):
        vs = [w.sym("v%d_%d" % (t, j)) for j in range(cnt)]; sent.append(vs)
        graphs.append(build_thread(it, t, [(f_pub[0], [mm, v], "publish") for v in vs], w.mem))
    P = len(publishers)
    kd = total
    if kd < 2: raise EncodingError("log queries need at least 2 events")
    for i, (kind, kc) in enumerate(listeners):
        h = ctx.helper("log_%s_%d_%d" % (kind, kc, kd))
        graphs.append(build_thread(it, P + i, [(h, [mm, getter, report_empty, report_len], "listen:" + kind)], w.mem))
    S = sum(g.step_budget() for g in graphs) + slack
    b = BMC(graphs, w.mem, S, {"await_threads": list(range(P))})
    S = b.S
    allv = [v for vs in sent for v in vs]
    cons = [allv[i] != allv[j2] for i in range(len(allv)) for j2 in range(i + 1, len(allv))]
    for v in allv: cons.append(z3.And(z3.UGE(v, BV(32, 0x1000)), z3.ULT(v, BV(32, POISON))))
    mv = b.memv[S]
    n = mv[("mc", (cfid["consumer_tail"],))]
    buf = mv[("mc", (cfid["first_buffer_element"],))]
    def at(idx64):
        e = buf[-1]
        for j in reversed(range(len(buf) - 1)): e = z3.If(idx64 == j, buf[j], e)
        return e
    good = [n == BV(64, total), mv[("mc", (cfid["publisher_tail"],))] == BV(64, total)]
    # the log holds every published value exactly once, each publisher's values in its send order
    for v in allv: good.append(z3.Sum([z3.If(buf[j] == v, BV(8, 1), BV(8, 0)) for j in range(total)]) == 1)
    for vs in sent:
        for x in range(len(vs) - 1):
            good.append(z3.Or([z3.And(buf[j] == vs[x], buf[k2] == vs[x + 1]) for j in range(total) for k2 in range(j + 1, total)]))
    def in_order_from(R, start, stop):
        """the Some results of R, in order, are exactly log[start..stop) (start/stop 64-bit terms)"""
        c = start; conds = []
        for some, val in R:
            conds.append(z3.Implies(some, z3.And(z3.ULT(c, stop), val == at(c))))
            c = z3.If(some, c + 1, c)
        conds.append(c == stop)
        return z3.And(conds)
    for i, (kind, kc) in enumerate(listeners):
        def ex(j, v, kind=kind, kc=kc):
            d = {"t": v.fields[0]}
            for x in range(1, len(v.fields)):
                o = ex_option_u32(v.fields[x]); d["s%d" % x] = o["some"]; d["v%d" % x] = o["val"]
            return d
        r = b.results(P + i, ex)[0]
        nres = (len(r) - 1) // 2
        R = [(r["s%d" % x], r["v%d" % x]) for x in range(1, nres + 1)]
        if kind == "joined":
            good.append(in_order_from(R, BV(64, 0), n))
        elif kind == "newonly":
            good.append(z3.ULE(r["t"], n)); good.append(in_order_from(R, r["t"], n))
        else:
            T = r["t"]; good.append(z3.ULE(T, n))
            Rnew, Rold = R[:kc + kd], R[kc + kd:]
            good.append(in_order_from(Rnew, T, n))            # the new stream: exactly the events from the split point on
            good.append(in_order_from(Rold, BV(64, 0), T))    # the old stream: exactly the events before it ...
            good.append(z3.Not(Rold[-1][0]))                  # ... and then it has ended
    meta = {"threads": ["%d: %d x publish_movable" % (t, c) for t, c in enumerate(publishers)] + ["%d: %s listener: subscribe, %d concurrent consume, wait for the publishers, drain" % (P + i, k_, kc) for i, (k_, kc) in enumerate(listeners)],
            "oracle": "the log ends up holding every published value exactly once, each publisher's values in its send order; a joined listener yields log[0..n) in order; a new-only listener log[T..n); a split pair: old yields log[0..T) and then ends, new yields log[T..n) -- nothing missing, nothing twice; yielded values equal the final log content (references stay valid and unchanged)",
            "bounds": "MMapMeta<u32> with %d slots (file and mapping not modelled: they only provide the memory), steps<=%d, payloads distinct symbolic u32" % (CAP, S)}
    violation = cons + [z3.Or(z3.And(b.all_done(), z3.Not(z3.And(good))), b.any_panic(), b.err[S])]
    witness = cons + [b.all_done()]
    meta["functions"] = sorted(set(x.split(">::")[-1] + " @" + (re.search(r"impl at (src/[^:]*)", x).group(1) if "impl at" in x else "") for x in it.functions_used))
    meta["intrinsics"] = sorted(it.intrinsics_used)
    rec, model = solve(name, b, violation, witness, timeout_s, ctx.workdir, meta)
    if model is not None:
        import replay
        rec["trace"] = b.decode_schedule(model)
        inp = {nm: model.eval(v, model_completion=True).as_long() for nm, v in w.inputs.items()}
        rec["inputs"] = inp
        progs = [["send:%d" % inp["v%d_%d" % (t, j)] for j in range(c)] for t, c in enumerate(publishers)]
        progs += [["listen_%s:%d" % (k_, kc * 16 + kd)] for (k_, kc) in listeners]
        segs = replay.segments_from_trace(rec["trace"])
        sent_vals = [[inp["v%d_%d" % (t, j)] for j in range(c)] for t, c in enumerate(publishers)]
        def symptom(h):
            if h["panics"]: return "panic: " + h["panics"][0]
            if h["stuck"] or h["timeout"]: return None
            logv = None
            for e in h["events"]:
                if e["op"] == "final_log": logv = [int(x) for x in e["res"]]
            if logv is None: return None
            flat = [v for vs in sent_vals for v in vs]
            if sorted(logv) != sorted(flat): return "the log does not hold exactly the published events: %s" % logv
            for e in h["events"]:
                if not e["op"].startswith("listen_"): continue
                res = e["res"]          # T <new...> | <old...>
                T = int(res[0]); rest = res[1:]
                if "|" in rest:
                    k = rest.index("|"); newv = [int(x) for x in rest[:k]]; oldv = [int(x) for x in rest[k + 1:]]
                    if oldv != logv[:T]: return "split at %d: the OLD stream yielded %s, the log before the split point is %s" % (T, oldv, logv[:T])
                    if newv != logv[T:]: return "split at %d: the NEW stream yielded %s, the log from the split point on is %s (events lost or repeated between old and new)" % (T, newv, logv[T:])
                else:
                    got = [int(x) for x in rest]
                    if got != logv[T:]: return "listener (%s) starting at %d yielded %s, the log from there on is %s" % (e["op"], T, got, logv[T:])
            return None
        found, why, tried = replay.search("MmapMeta:%d" % CAP, CAP, [0], [], progs, [], segs, symptom, max_runs=250)
        rec["native_runs"] = tried
        if found: rec.update(verdict="violation", symptom=found["symptom"], replayed=True, native_history=found["history"].get("events", []), native_segments=found["segments"])
        else: rec.update(verdict="inconclusive", why="model counterexample did not reproduce natively: %s" % why)
    return rec


def _c09_registry(add, tier, TO):
    def q(name, qtier, CAP, publishers, listeners, slack=2):
        add("C09", name, qtier, lambda ctx: log_query(ctx, name, CAP, publishers, listeners, TO, slack))
    q("c09_split_vs_publisher", "quick", 4, [2], [("split", 0)])
    q("c09_joined_vs_two_publishers", "quick", 4, [1, 1], [("joined", 1)])
    q("c09_newonly_vs_publisher", "quick", 4, [2], [("newonly", 1)])
    q("c09_split_vs_two_publishers", "quick", 4, [1, 1], [("split", 1)])
    q("c09_joined_and_split", "quick", 4, [2], [("joined", 0), ("split", 0)])
    q("c09_split_vs_three_events", "quick", 4, [2, 1], [("split", 0)])
    q("c09_split1_vs_three_events", "thorough", 4, [2, 1], [("split", 1)])
    q("c09_three_publishers_joined", "thorough", 4, [1, 1, 1], [("joined", 1)])
    q("c09_two_splits", "thorough", 4, [2], [("split", 0), ("split", 1)])
    q("c09_split_and_newonly_vs_two_publishers", "thorough", 4, [1, 1], [("split", 0), ("newonly", 1)])


EXTRA_REGISTRIES = [("C13", _c13_registry), ("C14", _c14_registry), ("C08", _c08_registry), ("C18", _c18_registry), ("C19", _c19_registry), ("C16", _c16_registry), ("C04", _c04_registry), ("C05", _c05_registry), ("C07", _c07_registry), ("C03", _c03_registry), ("C09", _c09_registry)]
