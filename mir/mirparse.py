"""Parser for the textual MIR printed by `rustc -Zunpretty=mir` (generic, pre-monomorphisation MIR of /repo).
Fail-closed: anything the later stages do not understand raises EncodingError with the offending MIR line."""
import re


class EncodingError(Exception):
    pass


class Fn:
    __slots__ = ("name", "head", "args", "argtypes", "types", "blocks", "file", "method", "impl_span", "closure_span", "ret")

    def __repr__(self):
        return "Fn(%s)" % self.name


def split_top(s, sep=","):
    """split on `sep` at bracket depth 0 (round, square, curly, angle -- '->' arrows are skipped)"""
    out, depth, cur, i = [], 0, "", 0
    while i < len(s):
        ch = s[i]
        if ch == "-" and i + 1 < len(s) and s[i + 1] == ">":
            cur += "->"; i += 2; continue
        if ch in "(<[{":
            depth += 1
        elif ch in ")>]}":
            depth -= 1
        if ch == sep and depth == 0:
            out.append(cur.strip()); cur = ""
        else:
            cur += ch
        i += 1
    if cur.strip():
        out.append(cur.strip())
    return out


RE_HEAD = re.compile(r"^fn (.*?)\((.*)\) -> (.*) \{$")


def parse(txt):
    fns = {}
    for chunk in re.split(r"\n(?=fn )", txt):
        if not chunk.startswith("fn "):
            continue
        end = chunk.find("\n}\n")
        if end >= 0: chunk = chunk[:end + 3]        # a chunk may be followed by `const`/`static`/promoted bodies: keep the function only
        head = chunk.split("\n", 1)[0]
        # the argument list starts at the LAST top-level '(' before ') -> ': find it by scanning for the name end
        m = re.match(r"^fn (.*) -> (.*) \{$", head)
        if not m:
            continue
        sig, ret = m.group(1), m.group(2)
        # `sig` = NAME(ARGS); ARGS may contain parens; NAME may contain parens inside <impl at ..> never, but closures `{closure#0}` ok
        depth = 0; j = len(sig) - 1
        if not sig.endswith(")"):
            continue
        while j >= 0:
            if sig[j] == ")": depth += 1
            elif sig[j] == "(": depth -= 1
            if depth == 0: break
            j -= 1
        name, argstr = sig[:j], sig[j + 1:-1]
        f = Fn(); f.name = name; f.head = head; f.ret = ret
        f.args = []; f.types = {}
        for a in split_top(argstr):
            am = re.match(r"^(_\d+): (.*)$", a, re.S)
            if am:
                f.args.append(am.group(1)); f.types[am.group(1)] = am.group(2)
        f.argtypes = argstr
        for lm in re.finditer(r"^\s*let (?:mut )?(_\d+): (.*);$", chunk, re.M):
            f.types[lm.group(1)] = lm.group(2)
        f.blocks = {}
        for bm in re.finditer(r"^    (bb\d+)(?: \(cleanup\))?: \{\n(.*?)^    \}", chunk, re.M | re.S):
            lines = [l.strip() for l in bm.group(2).strip().split("\n") if l.strip()]
            f.blocks[bm.group(1)] = lines
        im = re.search(r"<impl at (src/[^:>]*\.rs):(\d+):\d+: (\d+):\d+>", name)
        f.file = im.group(1) if im else None
        f.impl_span = (int(im.group(2)), int(im.group(3))) if im else None
        f.method = re.sub(r"^.*>::", "", name) if im else name.split("::")[-1] if "{closure" not in name else name
        if im:
            f.method = name[im.end():].lstrip(":")
        f.closure_span = None
        if "{closure#" in name and f.args:
            cm = re.search(r"\{closure@([^}]*)\}", f.types[f.args[0]])
            if cm:
                f.closure_span = cm.group(1)
        fns[name] = f
    return fns


class Index:
    """lookup tables over the parsed functions"""

    def __init__(self, fns):
        self.fns = fns
        self.by_method = {}
        self.closures = {}
        for f in fns.values():
            self.by_method.setdefault(f.method, []).append(f)
            if f.closure_span:
                self.closures[f.closure_span] = f

    def closure(self, span):
        f = self.closures.get(span)
        if not f:
            raise EncodingError("closure body not found for span " + span)
        return f

    def method(self, method, file_hint=None, self_type=None):
        """finds the crate function `method` defined in a file whose path contains file_hint; self_type filters by first argument type"""
        mod = file_hint.split("/")[-1][:-3] if file_hint and file_hint.endswith(".rs") else file_hint
        c = [f for f in self.by_method.get(method, []) if (file_hint is None or (f.file and file_hint in f.file) or
                                                            (f.file is None and (file_hint in f.name or (mod and re.search(r"(^|::)%s::" % re.escape(mod), f.name)))))]
        if len(c) > 1 and self_type:
            c2 = [f for f in c if f.args and self_type in f.types.get(f.args[0], "")]
            if c2:
                c = c2
        if len(c) != 1:
            raise EncodingError("cannot resolve callee %s (file hint %s, self %s): %d candidates %s" % (method, file_hint, self_type, len(c), [x.name for x in c][:4]))
        return c[0]


# ------------------------------------------------------------------------------------------------ places
def parse_place(s):
    s = s.strip()
    ast, j = _prefix(s, 0)
    if j != len(s):
        raise EncodingError("cannot parse place: " + s)
    return ast


def _prefix(s, i):
    if s[i] == "_":
        m = re.match(r"_\d+", s[i:])
        ast, j = ("local", m.group(0)), i + m.end()
    elif s.startswith("(*", i):
        inner, j = _prefix(s, i + 2)
        if s[j] != ")":
            raise EncodingError("place syntax: " + s)
        ast, j = ("deref", inner), j + 1
    elif s[i] == "(":
        inner, j = _prefix(s, i + 1)
        if s[j] == ".":
            m = re.match(r"\.(\d+): ", s[j:])
            if not m:
                raise EncodingError("place syntax (field): " + s)
            k = int(m.group(1)); t0 = j + m.end()
            depth = 0; e = t0
            while True:
                ch = s[e]
                if ch == "(": depth += 1
                elif ch == ")":
                    if depth == 0: break
                    depth -= 1
                e += 1
            ast, j = ("field", inner, k, s[t0:e]), e + 1
        elif s.startswith(" as ", j):
            e = s.index(")", j)
            ast, j = ("downcast", inner, s[j + 4:e]), e + 1
        else:
            raise EncodingError("place syntax: " + s)
    else:
        raise EncodingError("place syntax: " + s)
    while j < len(s) and s[j] == "[":
        e = s.index("]", j)
        ast = ("index", ast, s[j + 1:e]); j = e + 1
    return ast, j


def place_locals(ast):
    if ast[0] == "local":
        return {ast[1]}
    if ast[0] == "index":
        r = place_locals(ast[1])
        if re.match(r"^_\d+$", ast[2]):
            r = r | {ast[2]}
        return r
    return place_locals(ast[1])


def split_call(body):
    """`callee(args)` -> (callee, [args]) scanning balanced parens from the right (callee paths contain parens)"""
    depth = 0; j = len(body) - 1
    if body[j] != ")":
        raise EncodingError("call syntax: " + body)
    while True:
        if body[j] == ")": depth += 1
        elif body[j] == "(": depth -= 1
        if depth == 0: break
        j -= 1
    return body[:j], split_top(body[j + 1:-1])
