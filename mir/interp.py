"""Symbolic interpreter over textual MIR: executes one thread's API calls path-wise from one VISIBLE operation
(atomic op / plain access to shared memory / ghost event) to the next. Values are z3 terms or small Python
structures (pointers, aggregates, enums, closures). Fail-closed: unknown constructs raise EncodingError."""
import re
import z3
from mirparse import EncodingError, split_top, parse_place, split_call, place_locals

WIDTH = {"u8": 8, "i8": 8, "u16": 16, "i16": 16, "u32": 32, "i32": 32, "u64": 64, "i64": 64, "usize": 64, "isize": 64,
         "char": 32, "u128": 128, "i128": 128}
SIGNED = {"i8", "i16", "i32", "i64", "isize", "i128"}


def BV(w, v):
    return z3.BitVecVal(v, w)


class Ptr:
    """pointer into shared memory: object root, static path of field numbers / '*' (box contents), optional array index term"""
    __slots__ = ("root", "path", "idx", "sub")

    def __init__(self, root, path=(), idx=None, sub=()):
        self.root, self.path, self.idx, self.sub = root, tuple(path), idx, tuple(sub)

    def ext(self, k):
        if self.idx is not None:
            raise EncodingError("field projection of an array element pointer is not supported: %r.%s" % (self, k))
        return Ptr(self.root, self.path + (k,))

    def key(self):
        return (self.root, self.path)

    def __repr__(self):
        return "Ptr(%s,%s,%s%s)" % (self.root, self.path, self.idx, (",sub=%s" % (self.sub,)) if self.sub else "")


class LRef:
    """reference to a local variable of a frame of the same thread (frame depth index, local name, projection)"""
    __slots__ = ("depth", "name", "proj")

    def __init__(self, depth, name, proj=()):
        self.depth, self.name, self.proj = depth, name, tuple(proj)


class Agg:
    __slots__ = ("kind", "fields", "fn")

    def __init__(self, kind, fields, fn=None):
        self.kind, self.fields, self.fn = kind, list(fields), fn


class Enum:
    """enum value with a symbolic discriminant; payloads[variant_index] = list of field values (only for variants that may be live)"""
    __slots__ = ("adt", "discr", "payloads")

    def __init__(self, adt, discr, payloads):
        self.adt, self.discr, self.payloads = adt, discr, payloads


def waker_of(task):
    return Agg("Waker", [task])


def decode_cell(codec, raw):
    """shared cells that hold an enum are stored as small integers; `codec` says how to read them back"""
    if codec == "opt_waker":      # 0 = None, task + 1 = Some(waker of that task)
        return Enum("Option", z3.If(raw != 0, BV(64, 1), BV(64, 0)), {1: [waker_of(raw - 1)]})
    raise EncodingError("codec " + str(codec))


def encode_cell(codec, val):
    if codec == "opt_waker":
        if isinstance(val, Enum) and val.adt == "Option":
            some = val.discr == 1
            w = val.payloads[1][0].fields[0] if 1 in val.payloads else BV(8, 0)
            return z3.If(some, w + 1, BV(8, 0))
        if isinstance(val, Agg) and val.kind == "Waker": return val.fields[0] + 1
    raise EncodingError("cannot encode %s with codec %s" % (sx(val), codec))


VARIANTS = {"MMapMetaSubscriber": {"Dynamic": 0, "Fixed": 1}, "Option": {"None": 0, "Some": 1}, "Result": {"Ok": 0, "Err": 1},
            "RetryResult": {"Ok": 0, "Transient": 1, "Fatal": 2}, "Poll": {"Ready": 0, "Pending": 1}}
UNIT = ()


def opt_some(v):
    return Enum("Option", BV(64, 1), {1: [v]})


def opt_none():
    return Enum("Option", BV(64, 0), {})


def strip_generics(s):
    """removes balanced `::<...>` turbofish segments"""
    out = ""; i = 0
    while i < len(s):
        if s.startswith("::<", i) and not s.startswith("::<impl ", i):
            depth = 0; j = i + 2
            while j < len(s):
                if s[j] == "-" and j + 1 < len(s) and s[j + 1] == ">":
                    j += 2; continue
                if s[j] == "<": depth += 1
                elif s[j] == ">":
                    depth -= 1
                    if depth == 0: break
                j += 1
            i = j + 1
            continue
        out += s[i]; i += 1
    return out


def sx(v):
    """structural print of a value (used in graph node keys)"""
    if isinstance(v, z3.ExprRef): return v.sexpr()
    if isinstance(v, Ptr): return "P(%s,%s,%s,%s)" % (v.root, v.path, sx(v.idx), v.sub)
    if isinstance(v, LRef): return "L(%d,%s,%s)" % (v.depth, v.name, v.proj)
    if isinstance(v, Agg): return "A(%s,%s,[%s])" % (v.kind, v.fn.name if v.fn else "", ",".join(sx(x) for x in v.fields))
    if isinstance(v, Enum): return "E(%s,%s,{%s})" % (v.adt, sx(v.discr), ",".join("%s:[%s]" % (k, ",".join(sx(x) for x in p)) for k, p in sorted(v.payloads.items())))
    if isinstance(v, (tuple, list)): return "(" + ",".join(sx(x) for x in v) + ")"
    return repr(v)


class NeedLoad(Exception):
    """an operand of the current statement reads a shared location: the read must become a visible operation first"""
    def __init__(self, ptr, cachekey):
        self.ptr, self.cachekey = ptr, cachekey


class Frame:
    __slots__ = ("fn", "bb", "i", "loc", "ret_to", "ret_xform")

    def __init__(self, fn, args, ret_to, ret_xform=None):
        self.fn, self.bb, self.i, self.loc, self.ret_to, self.ret_xform = fn, "bb0", 0, {}, ret_to, ret_xform
        if len(args) != len(fn.args):
            raise EncodingError("arity mismatch calling %s: %d args for %d params" % (fn.name, len(args), len(fn.args)))
        for a, v in zip(fn.args, args):
            self.loc[a] = v

    def clone(self):
        f = Frame.__new__(Frame)
        f.fn, f.bb, f.i, f.ret_to, f.ret_xform = self.fn, self.bb, self.i, self.ret_to, self.ret_xform
        f.loc = dict(self.loc)
        return f


class TState:
    def __init__(self, frames, pc=None):
        self.frames = frames
        self.pc = pc if pc is not None else z3.BoolVal(True)

    def clone(self):
        return TState([f.clone() for f in self.frames], self.pc)


class Interp:
    """`cfg`: dict with
         consts   {name: int}            const generics (BUFFER_SIZE, POOL_SIZE, MAX_STREAMS, COUNT ...)
         types    {param: concrete name} type parameters (SlotType -> 'u32', ContainerType -> 'AtomicMove', ...)
         mem      {(root, path): decl}   shared memory layout; decl = {'kind': 'atomic'|'plain'|'array'|'frozen', 'sort': z3 sort, 'n': int, 'value': v}
         type_files {TypeName: source file}  where the impls of a type live (derived from /repo/src)
    """

    def __init__(self, index, cfg):
        self.ix = index
        self.cfg = cfg
        self.consts = cfg["consts"]
        self.types = cfg["types"]
        self.mem = cfg["mem"]
        self.type_files = cfg["type_files"]
        self.intrinsics_used = set()
        self.functions_used = set()

    # ------------------------------------------------------------------ types
    def subst_type(self, t):
        for k, v in self.types.items():
            t = re.sub(r"\b%s\b" % re.escape(k), v, t)
        return t

    def type_sort(self, t):
        t = self.subst_type(t.strip())
        if t == "bool": return z3.BoolSort()
        if t in WIDTH: return z3.BitVecSort(WIDTH[t])
        if t == "f32": return z3.BitVecSort(32)
        m = re.match(r"^std::num::NonZero<(\w+)>$", t)
        if m and m.group(1) in WIDTH: return z3.BitVecSort(WIDTH[m.group(1)])
        return None

    def is_signed(self, t):
        return self.subst_type(t.strip()) in SIGNED

    # ------------------------------------------------------------------ constants / operands
    def const(self, tok, fr):
        tok = tok.strip()
        if tok in ("true", "false"): return z3.BoolVal(tok == "true")
        m = re.match(r"^(-?\d+)_(\w+)$", tok)
        if m and m.group(2) in WIDTH: return BV(WIDTH[m.group(2)], int(m.group(1)))
        if tok in self.consts:
            cv = self.consts[tok]
            return z3.BoolVal(cv) if isinstance(cv, bool) else BV(64, cv)
        if tok == "()": return UNIT
        m = re.match(r"^ZeroSized: \{closure@(.*)\}$", tok)
        if m: return Agg("closure", [], self.ix.closure(m.group(1)))
        if tok.startswith('"') or tok.startswith("b\""): return ("str", tok)
        m = re.match(r"^(?:core::num::<impl )?(u8|u16|u32|u64|usize)>?::MAX$", tok)
        if m: return BV(WIDTH[m.group(1)], (1 << WIDTH[m.group(1)]) - 1)
        m = re.match(r"^(-?[0-9.]+(?:[eE][-+]?\d+)?)f32$", tok)
        if m:
            import struct
            return BV(32, struct.unpack("<I", struct.pack("<f", float(m.group(1))))[0])
        if tok.startswith("ZeroSized: "): return ("zst", tok)
        return ("opaque-const", tok)

    def operand(self, st, o):
        o = o.strip()
        if o.startswith("no_retag "): o = o[9:]
        if o.startswith("copy ") or o.startswith("move "):
            v = self.read_place(st, parse_place(o[5:]), None)
            if isinstance(v, tuple) and v and v[0] == "memread":
                p = v[1]
                d = self.mem.get(p.key())
                if d is None:
                    if p.idx is not None: raise EncodingError("read of undeclared array element " + repr(p))
                    return Ptr(p.root, p.path + ("*",))
                fr = st.frames[-1]
                ck = "__mr:%s:%d:%s" % (fr.bb, fr.i, o[5:])
                if ck in fr.loc: return fr.loc[ck]
                raise NeedLoad(p, ck)
            return v
        if o.startswith("const "): return self.const(o[6:], st.frames[-1])
        raise EncodingError("operand: " + o)

    # ------------------------------------------------------------------ places
    def eval_place(self, st, ast):
        """-> ('local', depth, name, proj) | ('mem', Ptr)"""
        k = ast[0]
        if k == "local":
            return ("local", len(st.frames) - 1, ast[1], ())
        if k == "deref":
            v = self.read_place(st, ast[1], None)
            if isinstance(v, Ptr): return ("mem", v)
            if isinstance(v, LRef): return ("local", v.depth, v.name, v.proj)
            if isinstance(v, Agg) and v.kind in ("Context", "Waker"):      # harness stand-ins passed by value where the code takes a reference
                return self.eval_place(st, ast[1])
            raise EncodingError("deref of non-pointer value %s in %s" % (sx(v), ast))
        if k == "field":
            b = self.eval_place(st, ast[1])
            if b[0] == "mem" and b[1].sub:
                p = b[1]; return ("mem", Ptr(p.root, p.path, p.idx, p.sub + (ast[2],)))
            if b[0] == "mem": return ("mem", b[1].ext(ast[2]))
            return ("local", b[1], b[2], b[3] + (ast[2],))
        if k == "downcast":
            b = self.eval_place(st, ast[1])
            if b[0] == "mem" and not b[1].sub and b[1].idx is None:
                d0 = self.mem.get(b[1].key())
                if d0 is not None and d0["kind"] == "frozen" and isinstance(d0["value"], Enum) and not d0.get("codec"):
                    return ("mem", Ptr(b[1].root, b[1].path + ("v:" + ast[2],)))          # payload of a shared enum with a constant discriminant
            if b[0] == "mem":
                p = b[1]
                return ("mem", Ptr(p.root, p.path, p.idx, p.sub + (("variant", ast[2]),)))
            return ("local", b[1], b[2], b[3] + (("variant", ast[2]),))
        if k == "index":
            b = self.eval_place(st, ast[1])
            ix = ast[2]
            if re.match(r"^_\d+$", ix): iv = st.frames[-1].loc[ix]
            else:
                m = re.match(r"^(\d+) of \d+$", ix)
                if not m: raise EncodingError("index expression: " + ix)
                iv = BV(64, int(m.group(1)))
            if b[0] == "mem":
                p = b[1]
                if p.idx is not None: raise EncodingError("nested array index")
                return ("mem", Ptr(p.root, p.path, iv))
            return ("local", b[1], b[2], b[3] + (("index", iv),))
        raise EncodingError("place kind " + k)

    def project(self, v, proj):
        for p in proj:
            if isinstance(p, tuple) and p[0] == "variant":
                if not isinstance(v, Enum): raise EncodingError("downcast of non-enum " + sx(v))
                vi = VARIANTS[v.adt][p[1]]
                if vi not in v.payloads: raise EncodingError("downcast to a variant without payload: %s of %s" % (p[1], sx(v)))
                v = Agg("variant", v.payloads[vi])
            elif isinstance(p, tuple) and p[0] == "index":
                if not isinstance(v, Agg): raise EncodingError("index of non-aggregate")
                iv = z3.simplify(p[1])
                if not z3.is_bv_value(iv): raise EncodingError("symbolic index into a local array")
                v = v.fields[iv.as_long()]
            else:
                if isinstance(v, Ptr): continue          # Box / Unique / NonNull / Pin / ManuallyDrop wrappers: same pointer
                if isinstance(v, LRef): continue
                if isinstance(v, Agg):
                    if p >= len(v.fields): raise EncodingError("field %s of %s" % (p, sx(v)))
                    v = v.fields[p]
                elif isinstance(v, z3.ExprRef) and p == 0: continue     # newtype wrappers around scalars (NonZero, ManuallyDrop<u32>)
                else: raise EncodingError("field %s of %s" % (p, sx(v)))
        return v

    def read_place(self, st, ast, dest_type):
        pl = self.eval_place(st, ast)
        if pl[0] == "local":
            fr = st.frames[pl[1]]
            if pl[2] not in fr.loc: raise EncodingError("read of unset local %s in %s" % (pl[2], fr.fn.name))
            return self.project(fr.loc[pl[2]], pl[3])
        # shared memory read
        p = pl[1]
        d = self.mem.get(p.key())
        if d is None:
            # reading a pointer-like wrapper (Box, Pin<Box>, Unique, ...): yields the pointer to its contents
            return ("memread", p)
        if d["kind"] == "frozen":
            if isinstance(d["value"], list):          # a constant array: nobody writes it during the query, reads are not visible operations
                if p.idx is None: return ("memread", p)
                iv = z3.simplify(p.idx)
                if not z3.is_bv_value(iv): raise EncodingError("symbolic index into a constant array " + repr(p))
                if iv.as_long() >= len(d["value"]): raise EncodingError("constant array read out of bounds " + repr(p))
                return d["value"][iv.as_long()]
            return d["value"]
        return ("memread", p)

    def write_local(self, st, depth, name, proj, val):
        fr = st.frames[depth]
        if not proj: fr.loc[name] = val; return
        def upd(v, proj):
            if not proj: return val
            p = proj[0]
            if isinstance(p, tuple): raise EncodingError("write through downcast/index projection")
            if v is None: v = Agg("partial", [])
            if not isinstance(v, Agg): raise EncodingError("projected write into non-aggregate " + sx(v))
            fs = list(v.fields)
            while len(fs) <= p: fs.append(None)
            fs[p] = upd(fs[p], proj[1:])
            return Agg(v.kind, fs, v.fn)
        fr.loc[name] = upd(fr.loc.get(name), proj)

    # ------------------------------------------------------------------ rvalues
    @staticmethod
    def float_op(op, a, b):
        """f32 values are carried as 32-bit words; arithmetic is ABSTRACTED by cheap bit-vector mixing functions (stated in the
        evidence): the queries that go through floats only claim things that do not depend on the numeric values"""
        rot = lambda x, n: z3.RotateLeft(x, n)
        if op == "Add": return a + b
        if op == "Sub": return a - b
        if op == "Mul": return (a + (a << 1)) ^ rot(b, 7)
        if op == "Div": return rot(a, 3) + (b + (b << 2)) + 1
        if op in ("Eq", "Ne"): return (a == b) if op == "Eq" else (a != b)
        raise EncodingError("float operator %s is not abstracted" % op)

    def binop(self, op, a, b, signed):
        if z3.is_bool(a) and z3.is_bool(b):
            return {"Eq": lambda: a == b, "Ne": lambda: a != b, "BitAnd": lambda: z3.And(a, b), "BitOr": lambda: z3.Or(a, b),
                    "BitXor": lambda: z3.Xor(a, b)}[op]()
        if op in ("Shl", "Shr") and a.size() != b.size():
            b = z3.ZeroExt(a.size() - b.size(), b) if b.size() < a.size() else z3.Extract(a.size() - 1, 0, b)
        t = {"Add": lambda: a + b, "Sub": lambda: a - b, "Mul": lambda: a * b,
             "Div": lambda: (a / b) if signed else z3.UDiv(a, b), "Rem": lambda: z3.SRem(a, b) if signed else z3.URem(a, b),
             "BitAnd": lambda: a & b, "BitOr": lambda: a | b, "BitXor": lambda: a ^ b,
             "Shl": lambda: a << b, "Shr": lambda: (a >> b) if signed else z3.LShR(a, b),
             "Eq": lambda: a == b, "Ne": lambda: a != b,
             "Lt": lambda: (a < b) if signed else z3.ULT(a, b), "Le": lambda: (a <= b) if signed else z3.ULE(a, b),
             "Gt": lambda: (a > b) if signed else z3.UGT(a, b), "Ge": lambda: (a >= b) if signed else z3.UGE(a, b)}
        if op not in t: raise EncodingError("binary operator " + op)
        return t[op]()

    def operand_type(self, fr, o):
        o = o.strip()
        m = re.match(r"^(?:copy|move) (_\d+)$", o)
        if m: return fr.fn.types.get(m.group(1), "")
        m = re.match(r"^const -?\d+_(\w+)$", o)
        if m: return m.group(1)
        m = re.match(r"^(?:copy|move) \(.*: ([^()]*)\)$", o)
        if m: return m.group(1)
        return ""

    def rvalue(self, st, r, dest_type):
        """returns a value, or ('memread', Ptr) when the rvalue is a read of shared memory (caller decides visibility)"""
        fr = st.frames[-1]
        r = r.strip()
        m = re.match(r"^(Add|Sub|Mul)WithOverflow\((.*)\)$", r)
        if m:
            ops = split_top(m.group(2))
            a, b = [self.operand(st, x) for x in ops]
            signed = self.is_signed(self.operand_type(fr, ops[0]))
            if m.group(1) == "Add": ov = z3.Not(z3.BVAddNoOverflow(a, b, signed)) if not signed else z3.Or(z3.Not(z3.BVAddNoOverflow(a, b, True)), z3.Not(z3.BVAddNoUnderflow(a, b)))
            elif m.group(1) == "Sub": ov = z3.Not(z3.BVSubNoUnderflow(a, b, signed)) if not signed else z3.Or(z3.Not(z3.BVSubNoUnderflow(a, b, True)), z3.Not(z3.BVSubNoOverflow(a, b)))
            else: ov = z3.Not(z3.BVMulNoOverflow(a, b, signed))
            res = {"Add": a + b, "Sub": a - b, "Mul": a * b}[m.group(1)]
            return Agg("tuple", [res, ov])
        m = re.match(r"^(Add|Sub|Mul|Div|Rem|BitAnd|BitOr|BitXor|Shl|Shr|Eq|Ne|Lt|Le|Gt|Ge|AddUnchecked|SubUnchecked|MulUnchecked|ShlUnchecked|ShrUnchecked)\((.*)\)$", r)
        if m:
            ops = split_top(m.group(2))
            a, b = [self.operand(st, x) for x in ops]
            t0_, t1_ = self.subst_type(self.operand_type(fr, ops[0])), self.subst_type(self.operand_type(fr, ops[1]))
            if t0_ == "f32" or t1_ == "f32" or ops[0].strip().endswith("f32") or ops[1].strip().endswith("f32"):
                self.intrinsics_used.add("f32 arithmetic ABSTRACTED by bit-vector mixing functions (values are not IEEE)")
                return self.float_op(m.group(1), a, b)
            signed = self.is_signed(t0_) or self.is_signed(t1_)
            return self.binop(m.group(1).replace("Unchecked", ""), a, b, signed)
        m = re.match(r"^(Not|Neg)\((.*)\)$", r)
        if m:
            a = self.operand(st, m.group(2))
            if m.group(1) == "Not": return z3.Not(a) if z3.is_bool(a) else ~a
            return -a
        m = re.match(r"^(.*) as (.*?) \((\w+)(?:\(.*\))?\)$", r)
        if m and (m.group(1).startswith("copy ") or m.group(1).startswith("move ") or m.group(1).startswith("const ")):
            v = self.operand(st, m.group(1)); kind = m.group(3); ty = m.group(2)
            if isinstance(v, tuple) and v and v[0] == "memread": raise EncodingError("cast of a shared-memory read in one statement: " + r)
            if kind == "IntToInt":
                srt = self.type_sort(ty)
                if srt is None or not isinstance(v, z3.ExprRef): raise EncodingError("IntToInt to " + ty)
                if z3.is_bool(v): v = z3.If(v, BV(8, 1), BV(8, 0))
                w = srt.size()
                if v.size() == w: return v
                if w < v.size(): return z3.Extract(w - 1, 0, v)
                return z3.SignExt(w - v.size(), v) if self.is_signed(self.operand_type(fr, m.group(1))) else z3.ZeroExt(w - v.size(), v)
            if kind in ("PtrToPtr", "Transmute", "PointerCoercion", "PointerExposeProvenance", "PointerWithExposedProvenance"):
                return v
            if kind == "IntToFloat":
                if v.size() == 32: return v
                return z3.Extract(31, 0, v) if v.size() > 32 else z3.ZeroExt(32 - v.size(), v)
            raise EncodingError("cast kind %s: %s" % (kind, r))
        m = re.match(r"^&(?:mut |raw mut |raw const )?(.*)$", r)
        if m and not r.startswith("&&"):
            ast = parse_place(m.group(1))
            pl = self.eval_place(st, ast)
            if pl[0] == "mem": return pl[1]
            return LRef(pl[1], pl[2], pl[3])
        m = re.match(r"^discriminant\((.*)\)$", r)
        if m:
            v = self.read_place(st, parse_place(m.group(1)), None)
            if isinstance(v, tuple) and v and v[0] == "memread":
                v = self.load_cell(st, v[1], "discr:" + m.group(1))
            if isinstance(v, Enum): return v.discr
            raise EncodingError("discriminant of " + sx(v))
        m = re.match(r"^(\w+)::<.*?>::(\w+)\((.*)\)$", r)      # enum variant constructor with positional fields: Option::<T>::Some(x)
        if m and m.group(1) in VARIANTS and m.group(2) in VARIANTS[m.group(1)]:
            vi = VARIANTS[m.group(1)][m.group(2)]
            return Enum(m.group(1), BV(64, vi), {vi: [self.operand(st, x) for x in split_top(m.group(3))]})
        m = re.match(r"^(\w+)::<.*>::(\w+)$", r)                # unit variant: Option::<T>::None
        if m and m.group(1) in VARIANTS and m.group(2) in VARIANTS[m.group(1)]:
            return Enum(m.group(1), BV(64, VARIANTS[m.group(1)][m.group(2)]), {})
        m = re.match(r"^(\w+)::<.*>::(\w+) \{(.*)\}$", r)       # struct-like variant: RetryResult::<..>::Ok { a: x, b: y }
        if m and m.group(1) in VARIANTS and m.group(2) in VARIANTS[m.group(1)]:
            vi = VARIANTS[m.group(1)][m.group(2)]
            fs = [self.operand(st, x.split(":", 1)[1]) for x in split_top(m.group(3))]
            return Enum(m.group(1), BV(64, vi), {vi: fs})
        m = re.match(r"^\{closure@([^}]*)\}(?: \{(.*)\})?$", r)
        if m:
            fs = [self.operand(st, x.split(":", 1)[1]) for x in split_top(m.group(2))] if m.group(2) else []
            return Agg("closure", fs, self.ix.closure(m.group(1)))
        if r.startswith("std::sync::atomic::Ordering::"): return ("ordering", r.split("::")[-1])
        m = re.match(r"^([A-Za-z_][\w:]*?)(?:::<.*>)? \{(.*)\}$", r)       # plain struct aggregate: Name::<..> { f: x }
        if m:
            fs = [self.operand(st, x.split(":", 1)[1]) for x in split_top(m.group(2))] if m.group(2).strip() else []
            return Agg(m.group(1).split("::")[-1], fs)
        m = re.match(r"^\[(.*); (.*)\]$", r)
        if m:
            n = self.const(m.group(2), fr)
            n = z3.simplify(n) if isinstance(n, z3.ExprRef) else None
            if n is None or not z3.is_bv_value(n): raise EncodingError("array repeat length: " + r)
            v = self.operand(st, m.group(1))
            return Agg("array", [v] * n.as_long())
        m = re.match(r"^\[(.*)\]$", r)
        if m:
            return Agg("array", [self.operand(st, x) for x in split_top(m.group(1))])
        m = re.match(r"^\((.*)\)$", r)
        if m and not r.startswith("(*") and not re.match(r"^\(.*: [^,]*\)$", r) and " as " not in r.split(",")[0]:
            return Agg("tuple", [self.operand(st, x) for x in split_top(m.group(1))])
        if r.startswith("copy ") or r.startswith("move ") or r.startswith("no_retag "):
            o = r[9:] if r.startswith("no_retag ") else r
            return self.read_place(st, parse_place(o[5:]), dest_type)
        if r.startswith("const "): return self.const(r[6:], fr)
        if re.match(r"^[A-Za-z_]\w*(::[A-Za-z_]\w*)+$", r): return ("opaque-const", r)          # unit enum variant of a foreign type (log::Level::Warn)
        raise EncodingError("rvalue: " + r)

    # ------------------------------------------------------------------ calls
    def resolve_type_name(self, t):
        """first identifier of a type expression after substitution of type parameters"""
        t = self.subst_type(t.strip())
        t = re.sub(r"^(&'?\w*\s*)?(mut )?", "", t)
        m = re.match(r"^(?:[a-z_]\w*::)*([A-Za-z_]\w*)", t)
        return m.group(1) if m else t

    def crate_fn(self, callee):
        """resolves a call to a function of the crate; returns Fn or None"""
        raw = callee
        if callee.startswith("__verif::") and callee in self.ix.fns: return self.ix.fns[callee]      # harness prelude helper
        m = re.match(r"^@([^:]+):(\w+)(?:#(\w+))?$", callee)          # harness prelude syntax: crate function named by source file [#SelfType]
        if m: return self.ix.method(m.group(2), m.group(1), m.group(3))
        m = re.match(r"^<(.*) as (.*)>::(\w+)(?:::<.*>)?$", callee, re.S)
        if m:
            mapped = self.types.get(m.group(1).strip())
            if mapped and mapped.startswith("@"):            # type parameter bound to "the type defined in this file"
                return self.ix.method(m.group(3), mapped[1:])
            tn = self.resolve_type_name(m.group(1))
            # several channel structs share a simple name (Atomic, FullSync, Crossbeam): a module path in the type expression decides
            mp = re.match(r"^((?:[a-z_]\w*::)+)[A-Z]\w*", self.subst_type(m.group(1).strip()))
            if mp:
                segs = [x for x in mp.group(1).split("::") if x]
                hint = "/" + "/".join(segs[-2:]) + ".rs" if len(segs) >= 2 else None
                if hint and any(f.file and ("/" + f.file).endswith(hint) for f in self.ix.by_method.get(m.group(3), [])):
                    return self._method_by_path(m.group(3), hint, tn)
            fh = self.type_files.get(tn)
            if fh is None: return None
            return self.ix.method(m.group(3), fh, tn)
        c = strip_generics(callee)
        parts = c.split("::")
        if len(parts) >= 2:
            tn = self.types.get(parts[-2], parts[-2])
            fh = self.type_files.get(tn)
            if fh is not None:
                return self.ix.method(parts[-1], fh, tn if tn[0].isupper() else None)
        if len(parts) == 1 and parts[0] in self.ix.by_method and len(self.ix.by_method[parts[0]]) == 1:
            return self.ix.by_method[parts[0]][0]
        return None

    def _method_by_path(self, method, hint, self_type):
        """crate function `method` whose source file path ends with `hint` (e.g. '/arc/atomic.rs', which must not match 'ogre_arc/atomic.rs')"""
        c = [f for f in self.ix.by_method.get(method, []) if f.file and ("/" + f.file).endswith(hint)]
        if len(c) > 1 and self_type:
            c2 = [f for f in c if f.args and self_type in f.types.get(f.args[0], "")]
            if c2: c = c2
        if len(c) != 1: raise EncodingError("cannot resolve %s by module path %s: %d candidates" % (method, hint, len(c)))
        return c[0]

    def memdecl(self, p, what):
        d = self.mem.get(p.key())
        if d is None:
            raise EncodingError("%s of undeclared shared location %r (extend the query's memory layout)" % (what, p))
        if (d["kind"] == "array") != (p.idx is not None) and d["kind"] != "frozen":
            raise EncodingError("%s: array/scalar mismatch for %r" % (what, p))
        return d

    def call(self, st, callee, args, dest_ast, nb):
        """returns ('val', v) | ('call', Fn, argvals, xform) | ('vis', desc) | ('fork', [(cond, ('val'|'call', ...))])"""
        fr = st.frames[-1]
        c = strip_generics(callee)
        a = lambda i: self.operand(st, args[i])
        last = c.split("::")[-1]
        def used(n): self.intrinsics_used.add(n)

        # ---- wrappers that are identity on pointers
        m = re.match(r"^<(.*) as (?:std::ops::)?(Deref|DerefMut)>::(deref|deref_mut)$", callee, re.S)
        if m:
            tn = self.resolve_type_name(m.group(1))
            if tn in ("CachePadded", "ManuallyDrop"):
                used("%s::deref" % tn); return ("val", a(0))
            if tn == "Arc":
                v = a(0); used("Arc::deref")
                if isinstance(v, LRef): v = self.project(st.frames[v.depth].loc[v.name], v.proj)      # &Arc<T> held in a local: the Arc's pointee
                if isinstance(v, Ptr):
                    d = self.mem.get(v.key())
                    if d is not None and d["kind"] == "frozen": return ("val", d["value"])      # an Arc stored in memory: its pointee
                return ("val", v)
            if tn in ("Pin", "Box"):
                v = a(0); used("%s::deref" % tn)
                if "Box" in m.group(1):
                    # deref of a (pinned) Box stored in shared memory: pointer to its contents
                    if isinstance(v, Ptr) and v.idx is None: return ("val", Ptr(v.root, v.path + ("*",)))
                    return ("val", v)
                if isinstance(v, LRef): return ("val", self.project(st.frames[v.depth].loc[v.name], v.proj))     # &Pin<&mut T> -> &T
                return ("val", v)
        if re.search(r"UnsafeCell(::<.*>)?::(get|raw_get|get_mut)$", callee, re.S): used("UnsafeCell::get"); return ("val", a(0))
        if re.search(r"NonNull(::<.*>)?::(as_ref|as_mut)", callee, re.S):
            # `&NonNull<T>` -> `&T`: reads the pointer value through the reference
            v = a(0); used("NonNull::as_ref/as_mut")
            if isinstance(v, LRef): return ("val", self.project(st.frames[v.depth].loc[v.name], v.proj))
            if isinstance(v, Ptr):
                d = self.mem.get(v.key())
                if d is not None and d["kind"] == "frozen": return ("val", d["value"])
                raise EncodingError("NonNull::as_ref through a shared location that is not a frozen pointer: %r" % v)
            return ("val", v)
        if re.search(r"NonNull(::<.*>)?::as_ptr", callee, re.S): used("NonNull::as_ptr"); return ("val", a(0))
        if re.search(r"(^|::)ManuallyDrop(::<.*>)?::(new|into_inner)$", callee, re.S): used("ManuallyDrop::new"); return ("val", a(0))
        if re.search(r"Box(::<.*>)?::from_raw$", callee, re.S): used("Box::from_raw"); return ("val", Agg("Box", [a(0)]))
        if re.search(r"Box(::<.*>)?::leak", callee, re.S): used("Box::leak"); v = a(0); return ("val", v.fields[0] if isinstance(v, Agg) and v.kind == "Box" else v)
        if re.match(r"^<.* as (From|Into)<.*>>::(from|into)$", callee, re.S) and "NonNull" in callee: used("NonNull::from"); return ("val", a(0))
        if re.match(r"^(std::)?mem::drop(::<.*>)?$", callee, re.S) or re.match(r"^drop(::<.*>)?$", callee, re.S):
            v = a(0)
            if isinstance(v, Agg) and v.kind == "Box" and isinstance(v.fields[0], Ptr):
                used("drop(Box) -> ghost free"); return ("vis", ("free", v.fields[0].root))
            return self.drop_value(st, v)
        # ---- integers
        if re.search(r"<impl [ui]\d+>::overflowing_sub$|<impl [ui]size>::overflowing_sub$", c): x, y = a(0), a(1); used("overflowing_sub"); return ("val", Agg("tuple", [x - y, z3.ULT(x, y)]))
        if re.search(r"<impl [ui](\d+|size)>::overflowing_add$", c): x, y = a(0), a(1); used("overflowing_add"); return ("val", Agg("tuple", [x + y, z3.ULT(x + y, x)]))
        if re.search(r"<impl u(\d+|size)>::checked_add$", c):
            x, y = a(0), a(1); used("checked_add (unsigned)"); return ("val", Enum("Option", z3.If(z3.ULT(x + y, x), BV(64, 0), BV(64, 1)), {1: [x + y]}))
        if re.search(r"<impl u(\d+|size)>::checked_sub$", c):
            x, y = a(0), a(1); used("checked_sub (unsigned)"); return ("val", Enum("Option", z3.If(z3.ULT(x, y), BV(64, 0), BV(64, 1)), {1: [x - y]}))
        if re.search(r"<impl u(\d+|size)>::saturating_sub$", c): x, y = a(0), a(1); used("saturating_sub (unsigned)"); return ("val", z3.If(z3.ULT(x, y), BV(x.size(), 0), x - y))
        if re.search(r"<impl u(\d+|size)>::saturating_add$", c): x, y = a(0), a(1); used("saturating_add (unsigned)"); return ("val", z3.If(z3.ULT(x + y, x), BV(x.size(), (1 << x.size()) - 1), x + y))
        if re.search(r"<impl [ui](\d+|size)>::wrapping_sub$", c): used("wrapping_sub"); return ("val", a(0) - a(1))
        if re.search(r"<impl [ui](\d+|size)>::wrapping_add$", c): used("wrapping_add"); return ("val", a(0) + a(1))
        if re.search(r"(<impl u(\d+|size)>|std::cmp|core::cmp|Ord)::max$", c) or re.match(r"^<u(\d+|size) as Ord>::max$", c):
            x, y = a(0), a(1); used("max(unsigned)"); return ("val", z3.If(z3.UGE(x, y), x, y))
        if re.search(r"(<impl u(\d+|size)>|std::cmp|core::cmp|Ord)::min$", c) or re.match(r"^<u(\d+|size) as Ord>::min$", c):
            x, y = a(0), a(1); used("min(unsigned)"); return ("val", z3.If(z3.ULE(x, y), x, y))
        if re.search(r"NonZero::new$", c) or re.search(r"NonZero<\w+>::new$", c): v = a(0); used("NonZero::new"); return ("val", Enum("Option", z3.If(v != 0, BV(64, 1), BV(64, 0)), {1: [v]}))
        if re.search(r"NonZero(<\w+>)?::get$", c): used("NonZero::get"); return ("val", a(0))
        if re.search(r"<impl bool>::then_some$", c):
            cnd, v = a(0), a(1); used("bool::then_some"); return ("val", Enum("Option", z3.If(cnd, BV(64, 1), BV(64, 0)), {1: [v]}))
        if re.search(r"<impl u(\d+|size)>::is_power_of_two$", c): v = a(0); used("is_power_of_two"); return ("val", z3.And(v != 0, (v & (v - 1)) == 0))
        # ---- slices / pointers
        if re.search(r"<impl \[.*\]>::get_unchecked(_mut)?$", c):
            p = a(0)
            if not isinstance(p, Ptr) or p.idx is not None: raise EncodingError("get_unchecked on " + sx(p))
            if (p.root, p.path) not in self.mem:
                # an array of STRUCTS (e.g. one ring buffer per listener): its elements are separate sub-objects; the index is
                # concretised by a case split over the element numbers the layout declares
                js = sorted({k[1][len(p.path)] for k in self.mem if k[0] == p.root and len(k[1]) > len(p.path) and k[1][:len(p.path)] == p.path and isinstance(k[1][len(p.path)], int)})
                if not js: raise EncodingError("get_unchecked on an undeclared array " + sx(p))
                iv = a(1); used("slice::get_unchecked on an array of sub-objects (case split over the index)")
                alts = [(iv == BV(iv.size(), j), ("val", Ptr(p.root, p.path + (j,)))) for j in js]
                alts.append((z3.And([iv != BV(iv.size(), j) for j in js]), ("panic", "get_unchecked: index outside the array (undefined behaviour)")))
                return ("fork", alts)
            used("slice::get_unchecked(_mut)"); return ("val", Ptr(p.root, p.path, a(1)))
        # ---- slice iterators over a shared array: (pointer to the array, next index); the element read itself stays a visible load
        if re.search(r"<impl \[.*\]>::iter$", c):
            p = a(0)
            if not isinstance(p, Ptr) or p.idx is not None: raise EncodingError("slice::iter on " + sx(p))
            d = self.memdecl(Ptr(p.root, p.path, BV(64, 0)), "slice::iter")
            used("slice::iter / Iter::next over a shared array (index cursor; element reads are visible loads)")
            return ("val", Agg("SliceIter", [p, BV(64, 0)]))
        if re.match(r"^<std::slice::Iter<.*> as IntoIterator>::into_iter$", callee, re.S): return ("val", a(0))
        if re.match(r"^<&\[.*; .*\] as IntoIterator>::into_iter$", callee, re.S):
            p = a(0)
            if not isinstance(p, Ptr) or p.idx is not None: raise EncodingError("array into_iter on " + sx(p))
            self.memdecl(Ptr(p.root, p.path, BV(64, 0)), "array into_iter")
            used("slice::iter / Iter::next over a shared array (index cursor; element reads are visible loads)")
            return ("val", Agg("SliceIter", [p, BV(64, 0)]))
        # ---- std::sync::Arc<T> carried as its content (std's Arc is trusted; clone = same value, drop = nothing)
        if re.match(r"^Arc::<.*>::new$", callee, re.S) or c in ("Arc::new", "std::sync::Arc::new"): used("Arc::new -> the value itself (std Arc trusted)"); return ("val", a(0))
        if re.match(r"^<Arc<.*> as Clone>::clone$", callee, re.S):
            v = a(0); used("Arc::clone -> the same value")
            if isinstance(v, LRef): v = self.project(st.frames[v.depth].loc[v.name], v.proj)
            return ("val", v)
        # ---- logging is off (no logger is installed by the library: log::max_level() == Off), sleeping has no effect on shared state
        if re.match(r"^<Level as PartialOrd<LevelFilter>>::le$", c): used("log level test -> false (no logger installed: log::max_level() is Off)"); return ("val", z3.BoolVal(False))
        if c.endswith("Duration::from_millis") or c.endswith("Duration::from_secs"): return ("val", ("opaque-const", "duration"))
        if c in ("std::thread::sleep", "thread::sleep", "sleep"):
            if self.cfg.get("sleep_is_unreachable"):
                used("thread::sleep -> path assumed unreachable within the bounds (reported if the solver reaches it)")
                return ("panic", "ASSUMED-UNREACHABLE: thread::sleep (sleep-and-retry path)")
            used("thread::sleep -> no effect"); return ("val", UNIT)
        if re.match(r"^<std::ops::Range<\w+> as IntoIterator>::into_iter$", callee): return ("val", a(0))
        if re.match(r"^<std::ops::Range<\w+> as Iterator>::next$", callee):
            r_ = a(0)
            if not isinstance(r_, LRef): raise EncodingError("Range::next needs a reference to a local range")
            rg = self.project(st.frames[r_.depth].loc[r_.name], r_.proj)
            if not (isinstance(rg, Agg) and rg.kind == "Range"): raise EncodingError("Range::next on " + sx(rg))
            cur, end = rg.fields; used("Range<uN>::next")
            more = z3.simplify(z3.ULT(cur, end))
            if not (z3.is_true(more) or z3.is_false(more)): raise EncodingError("Range iteration with a symbolic bound (make the bound a constant of the query)")
            if z3.is_true(more):
                self.write_local(st, r_.depth, r_.name, r_.proj, Agg("Range", [z3.simplify(cur + 1), end]))
                return ("val", opt_some(cur))
            return ("val", opt_none())
        if re.match(r"^<std::slice::Iter<.*> as Iterator>::next$", callee, re.S):
            r_ = a(0)
            if not isinstance(r_, LRef): raise EncodingError("Iter::next needs a reference to a local iterator")
            itv = self.project(st.frames[r_.depth].loc[r_.name], r_.proj)
            if not (isinstance(itv, Agg) and itv.kind == "SliceIter"): raise EncodingError("Iter::next on " + sx(itv))
            p, i_ = itv.fields
            dd = self.mem[p.key()]
            n_el = dd["n"] if "n" in dd else len(dd["value"])
            more = z3.simplify(z3.ULT(i_, BV(64, n_el)))
            self.write_local(st, r_.depth, r_.name, r_.proj, Agg("SliceIter", [p, z3.simplify(z3.If(more, i_ + 1, i_))]))
            return ("fork", [(more, ("val", opt_some(Ptr(p.root, p.path, i_)))), (z3.Not(more), ("val", opt_none()))])
        if re.search(r"<impl \*(const|mut) .*>::offset_from$", c):
            p, q = a(0), a(1)
            if not (isinstance(p, Ptr) and isinstance(q, Ptr) and p.key() == q.key() and p.idx is not None and q.idx is not None):
                raise EncodingError("offset_from on unrelated pointers %s %s" % (sx(p), sx(q)))
            used("ptr::offset_from"); return ("val", p.idx - q.idx)
        if re.search(r"(^|::)drop_in_place(::<.*>)?$", callee, re.S) or c.endswith("drop_in_place"):
            p = a(0)
            if isinstance(p, LRef): return self.drop_value(st, self.project(st.frames[p.depth].loc[p.name], p.proj))
            d = self.memdecl(p, "ptr::drop_in_place")
            # the payload's destructor, modelled as a visible WRITE of a 'destroyed' marker into the slot: a payload that is destroyed
            # while (or after) somebody else was handed the slot shows up as a marker where an event was expected
            used("ptr::drop_in_place of a pooled payload -> visible store of a DESTROYED marker (payload type with a destructor)")
            return ("vis", ("pstore", p.key(), p.idx, BV(d["sort"].size(), 0xDEADD00D)))
        if re.search(r"(^|::)ptr::write$", c) or c in ("std::ptr::write", "core::ptr::write"):
            p = a(0)
            if isinstance(p, LRef): self.write_local(st, p.depth, p.name, p.proj, a(1)); return ("val", UNIT)
            d = self.memdecl(p, "ptr::write"); used("ptr::write -> plain store")
            return ("vis", ("pstore", p.key(), p.idx, a(1)))
        if re.search(r"(^|::)ptr::read$", c):
            p = a(0)
            if isinstance(p, LRef): return ("val", self.project(st.frames[p.depth].loc[p.name], p.proj))
            d = self.memdecl(p, "ptr::read"); used("ptr::read -> plain load")
            return ("vis", ("pload", p.key(), p.idx))
        if re.search(r"<impl f32>::(from_bits|to_bits)$", c): used("f32::from_bits/to_bits"); return ("val", a(0))
        if re.search(r"needs_drop$", c):
            used("mem::needs_drop (per-instantiation constant)"); return ("val", z3.BoolVal(bool(self.cfg.get("needs_drop", False))))
        if last in ("spin_loop",) or c.endswith("hint::spin_loop"): used("hint::spin_loop"); return ("val", UNIT)
        if last == "fence" and "atomic" in c or c == "fence": used("atomic::fence (no-op under SC)"); return ("val", UNIT)
        # ---- atomics
        if re.search(r"Atomic(?:::<\w+>|U32|U64|Bool|Usize)?::new$", callee): used("Atomic::new -> the value (object private to the thread until shared)"); return ("val", a(0))
        if re.search(r"slice::from_raw_parts(_mut)?(::<.*>)?$", callee, re.S):
            p = a(0)
            if not isinstance(p, Ptr): raise EncodingError("from_raw_parts on " + sx(p))
            self.memdecl(Ptr(p.root, p.path, BV(64, 0)), "slice::from_raw_parts"); used("slice::from_raw_parts(_mut) over a declared shared array")
            return ("val", Ptr(p.root, p.path))
        if c == "__verif::await_others": used("harness barrier: wait until the publisher threads have returned"); return ("vis", ("await",))
        if re.search(r"Atomic(?:::<\w+>|U32|U64|Usize)?::fetch_update(::<.*>)?$", callee, re.S):
            # std's fetch_update is a load + closure + compare_exchange_weak retry loop: encoded through the harness prelude's rendition of it
            f = self.ix.fns.get("__verif::fetch_update")
            if f is None: raise EncodingError("fetch_update helper missing from the prelude")
            used("Atomic::fetch_update -> load / closure / compare_exchange_weak retry loop (as in std)")
            return ("call", f, [a(0), a(1), a(2), a(3)], None)
        m = re.search(r"Atomic(?:::<(\w+)>|U32|U64|Bool|Usize)?::(fetch_max|fetch_min|fetch_or|fetch_and|fetch_xor)$", callee)
        if m and ("atomic::Atomic" in callee or "Atomic::<" in callee or "AtomicU" in callee or "AtomicBool" in callee):
            p = a(0)
            if not isinstance(p, Ptr): raise EncodingError("atomic read-modify-write on a non-shared pointer " + sx(p))
            self.memdecl(p, "atomic " + m.group(2)); used("Atomic::" + m.group(2))
            return ("vis", ("armw", p.key(), m.group(2), a(1)))
        m = re.search(r"Atomic(?:::<(\w+)>|U32|U64|Bool|Usize)?::(load|store|swap|fetch_add|fetch_sub|compare_exchange|compare_exchange_weak)$", callee)
        if m and ("atomic::Atomic" in callee or "Atomic::<" in callee or "AtomicU" in callee or "AtomicBool" in callee):
            p = a(0)
            if isinstance(p, LRef):
                # an atomic that lives in an object private to this thread (e.g. the cursor of a log subscriber): plain local semantics
                cur = self.project(st.frames[p.depth].loc[p.name], p.proj); op = m.group(2); used("Atomic::%s on a thread-private object (local)" % op)
                if op == "load": return ("val", cur)
                if op == "store": self.write_local(st, p.depth, p.name, p.proj, a(1)); return ("val", UNIT)
                if op == "swap": self.write_local(st, p.depth, p.name, p.proj, a(1)); return ("val", cur)
                if op == "fetch_add": self.write_local(st, p.depth, p.name, p.proj, cur + a(1)); return ("val", cur)
                if op == "fetch_sub": self.write_local(st, p.depth, p.name, p.proj, cur - a(1)); return ("val", cur)
                okc = cur == a(1)
                self.write_local(st, p.depth, p.name, p.proj, z3.If(okc, a(2), cur))
                return ("val", Enum("Result", z3.If(okc, BV(64, 0), BV(64, 1)), {0: [cur], 1: [cur]}))
            if not isinstance(p, Ptr): raise EncodingError("atomic op on non-shared pointer " + sx(p))
            d = self.memdecl(p, "atomic " + m.group(2))
            if d["kind"] == "frozen":
                if m.group(2) != "load": raise EncodingError("write to a location the query declares constant: " + repr(p))
                used("Atomic::load of a location that is constant in this query"); return ("val", d["value"])
            op = m.group(2); used("Atomic::" + op)
            if op == "load": return ("vis", ("aload", p.key()))
            if op == "store": return ("vis", ("astore", p.key(), a(1)))
            if op == "swap": return ("vis", ("aswap", p.key(), a(1)))
            if op == "fetch_add": return ("vis", ("afadd", p.key(), a(1)))
            if op == "fetch_sub": return ("vis", ("afsub", p.key(), a(1)))
            return ("vis", ("acas", p.key(), a(1), a(2), op.endswith("_weak")))
        # ---- closures
        m = re.match(r"^<(.*) as (Fn|FnMut|FnOnce)<(.*)>>::(call|call_mut|call_once)$", callee, re.S)
        if m:
            clo = a(0)
            self_arg = clo
            if isinstance(clo, LRef): clo = self.project(st.frames[clo.depth].loc[clo.name], clo.proj)
            if not (isinstance(clo, Agg) and clo.kind == "closure"): raise EncodingError("call of non-closure " + sx(clo))
            tup = a(1)
            targs = list(tup.fields) if isinstance(tup, Agg) else []
            f = clo.fn
            # the closure body takes `self` by value, & or &mut -- pass what its signature expects
            t0 = f.types[f.args[0]]
            if t0.startswith("&"):
                if not isinstance(self_arg, LRef):
                    # materialise the closure in a scratch local of the caller so that a reference can be formed
                    nm = "_clo%d" % len(fr.loc); fr.loc[nm] = clo; self_arg = LRef(len(st.frames) - 1, nm)
            else:
                self_arg = clo
            used("closure call (inlined MIR body)")
            return ("call", f, [self_arg] + targs, None)
        # ---- Option / Result helpers
        m = re.match(r"^(Option|Result)::<.*>::(\w+)(::<.*>)?$", callee, re.S)
        if m:
            adt, meth = m.group(1), m.group(2)
            v = a(0)
            if isinstance(v, Ptr) and meth == "insert":
                d = self.memdecl(v, "Option::insert"); used("Option::insert into a shared cell -> plain store")
                fr.loc["__insret"] = Ptr(v.root, v.path, v.idx, (("variant", "Some"), 0))
                return ("vis", ("pstore", v.key(), v.idx, encode_cell(d.get("codec"), opt_some(a(1)))), "__insret")
            if isinstance(v, LRef): v = self.project(st.frames[v.depth].loc[v.name], v.proj)
            if not isinstance(v, Enum): raise EncodingError("%s::%s on %s" % (adt, meth, sx(v)))
            some = v.discr == (1 if adt == "Option" else 0)
            pv = 1 if adt == "Option" else 0
            used("%s::%s" % (adt, meth))
            if meth in ("is_some", "is_ok"): return ("val", some)
            if meth in ("is_none", "is_err"): return ("val", z3.Not(some))
            if meth in ("unwrap", "expect", "unwrap_unchecked"):
                return ("fork", [(some, ("val", v.payloads[pv][0] if pv in v.payloads else None)), (z3.Not(some), ("panic", "%s::%s on None/Err" % (adt, meth)))])
            if meth == "ok" and adt == "Result":
                return ("val", Enum("Option", z3.If(some, BV(64, 1), BV(64, 0)), {1: [v.payloads[0][0]]} if 0 in v.payloads else {}))
            if meth == "unwrap_or_default":
                dv = v.payloads[pv][0] if pv in v.payloads else None
                if not isinstance(dv, z3.ExprRef): raise EncodingError("unwrap_or_default of a non-scalar")
                return ("val", z3.If(some, dv, BV(dv.size(), 0) if z3.is_bv(dv) else z3.BoolVal(False)))
            if meth == "unwrap_or":
                dflt = a(1)
                return ("fork", [(some, ("val", v.payloads[pv][0] if pv in v.payloads else None)), (z3.Not(some), ("val", dflt))])
            if meth == "map" and adt == "Option":
                clo = a(1)
                if not (isinstance(clo, Agg) and clo.kind == "closure"): raise EncodingError("Option::map with non-closure")
                alts = [(z3.Not(some), ("val", opt_none()))]
                if 1 in v.payloads:
                    alts.append((some, ("call", clo.fn, [clo, v.payloads[1][0]], "wrap_some")))
                return ("fork", alts)
            raise EncodingError("%s::%s not modelled" % (adt, meth))
        # ---- abstract waker (a waker is a task id; waking sets a ghost flag)
        if re.search(r"(^|::)Waker::wake_by_ref$", c):
            w_ = a(0); used("Waker::wake_by_ref -> ghost wake(task)")
            if isinstance(w_, Ptr) and w_.sub:      # through a reference into the shared wakers array: the cell is read at wake time
                return ("vis", ("wake_cell", w_.key(), w_.idx))
            return ("vis", ("wake", self.waker_id(st, w_)))
        if re.search(r"(^|::)Context(::<.*>)?::waker$", callee, re.S):
            cx = a(0); used("Context::waker")
            if isinstance(cx, LRef): cx = self.project(st.frames[cx.depth].loc[cx.name], cx.proj)
            if isinstance(cx, Agg) and cx.kind == "Context": return ("val", cx.fields[0])
            raise EncodingError("Context value expected, got " + sx(cx))
        if c == "__verif::park":
            cx = a(0); used("executor model: park until woken")
            if isinstance(cx, LRef): cx = self.project(st.frames[cx.depth].loc[cx.name], cx.proj)
            return ("vis", ("park", cx.fields[0].fields[0]))
        if re.search(r"Waker as Clone>::clone$", c) or re.search(r"(^|::)Waker::clone$", c): used("Waker::clone"); return ("val", a(0))
        if re.search(r"(^|::)Waker::will_wake$", c): used("Waker::will_wake"); return ("val", self.waker_id(st, a(0)) == self.waker_id(st, a(1)))
        # ---- crate functions (inlined by interpretation)
        f = self.crate_fn(callee)
        if f is not None:
            rd = getattr(self, "redirect", {})
            for suffix, target in rd.items():
                if f.name.endswith(suffix):
                    self.intrinsics_used.add("%s encoded as one retrying compare_exchange(false->true) (its MIR was checked to be exactly such a retry ladder)" % suffix)
                    f = target; break
            self.functions_used.add(f.name)
            return ("call", f, [a(i) for i in range(len(args))], None)
        raise EncodingError("unknown callee: %s" % callee)

    def load_cell(self, st, p, tag):
        """value of a shared cell read as part of the CURRENT statement (becomes a visible load first, see NeedLoad)"""
        fr = st.frames[-1]
        ck = "__mr:%s:%d:%s" % (fr.bb, fr.i, tag)
        if ck in fr.loc: return fr.loc[ck]
        raise NeedLoad(Ptr(p.root, p.path, p.idx), ck)

    def waker_id(self, st, w):
        if isinstance(w, Ptr) and w.sub:          # reference into a shared Option<Waker> cell: read it now
            cell = self.load_cell(st, w, "waker:%s" % sx(w))
            if isinstance(cell, Enum) and 1 in cell.payloads: return cell.payloads[1][0].fields[0]
            raise EncodingError("waker cell value " + sx(cell))
        if isinstance(w, LRef): w = self.project(st.frames[w.depth].loc[w.name], w.proj)
        if isinstance(w, Agg) and w.kind == "Waker": return w.fields[0]
        raise EncodingError("waker value expected, got " + sx(w))

    def drop_value(self, st, v):
        """value-directed drop glue"""
        if v is None or isinstance(v, (z3.ExprRef, Ptr, LRef)) or (isinstance(v, tuple) and (not v or isinstance(v[0], str))):
            return ("val", UNIT)
        if isinstance(v, Agg):
            if v.kind in ("closure", "tuple", "variant", "array", "partial"):
                for x in v.fields:
                    r = self.drop_value(st, x)
                    if r != ("val", UNIT): raise EncodingError("drop glue of nested droppable value inside %s" % v.kind)
                return ("val", UNIT)
            if v.kind == "Waker": return ("val", UNIT)
            raise EncodingError("drop glue for %s not modelled (call its Drop impl explicitly in the thread program)" % v.kind)
        if isinstance(v, Enum):
            for p in v.payloads.values():
                for x in p:
                    r = self.drop_value(st, x)
                    if r != ("val", UNIT): raise EncodingError("drop glue of enum payload")
            return ("val", UNIT)
        raise EncodingError("drop of " + sx(v))

    # ------------------------------------------------------------------ run until the next visible operation
    def run(self, st):
        """-> list of outcomes: ('vis', st, desc, dest_ast, nextbb) | ('done', st, retval) | ('panic', st, msg) ; each st.pc holds the
        path condition accumulated since the previous visible operation"""
        out, work = [], [st]
        guard = 0
        while work:
            st = work.pop()
            while True:
                guard += 1
                if guard > 200000: raise EncodingError("interpreter did not reach a visible operation (unbounded local loop?)")
                fr = st.frames[-1]
                lines = fr.fn.blocks.get(fr.bb)
                if lines is None: raise EncodingError("missing block %s in %s" % (fr.bb, fr.fn.name))
                line = lines[fr.i]
                pos = "__mr:%s:%d:" % (fr.bb, fr.i)
                for kx in [kx for kx in fr.loc if kx.startswith("__mr:") and not kx.startswith(pos)]: del fr.loc[kx]
                try:
                    r_ = self.exec_line(st, fr, line, out, work)
                except NeedLoad as nl:
                    self.memdecl(nl.ptr, "plain load")
                    out.append(("vis", st, ("pload", nl.ptr.key(), nl.ptr.idx), ("local", nl.cachekey), None)); break
                if r_ == "break": break
                continue
        return out

    def exec_line(self, st, fr, line, out, work):
        """executes one MIR statement/terminator of the top frame; returns 'break' when the path ended, else 'continue'"""
        if True:
            if True:
                if line.startswith(("StorageLive", "StorageDead", "nop", "FakeRead", "AscribeUserType", "Coverage", "PlaceMention", "Retag", "ConstEvalCounter", "BackwardIncompatibleDropHint")):
                    fr.i += 1; return "continue"
                m = re.match(r"^goto -> (bb\d+);", line)
                if m: fr.bb, fr.i = m.group(1), 0; return "continue"
                if line.startswith("unreachable"): return "break"
                if line.startswith("resume") or line.startswith("unwind "): return "break"
                if line.startswith("return"):
                    ret = fr.loc.get("_0", UNIT)
                    if isinstance(ret, LRef) and ret.depth == len(st.frames) - 1: raise EncodingError("returning a reference to a local")
                    xf = fr.ret_xform
                    if xf == "wrap_some": ret = opt_some(ret)
                    st.frames.pop()
                    if not st.frames: out.append(("done", st, ret)); return "break"
                    caller = st.frames[-1]; dest, nb = fr.ret_to
                    self.assign(st, dest, ret); caller.bb, caller.i = nb, 0; return "continue"
                m = re.match(r"^switchInt\((.*?)\) -> \[(.*)\];", line)
                if m:
                    v = self.operand(st, m.group(1)); targets = split_top(m.group(2))
                    if z3.is_bool(v): v = z3.If(v, BV(8, 1), BV(8, 0))
                    conds, feas = [], []
                    for t in targets:
                        k, bb = [x.strip() for x in t.split(":")]
                        if k == "otherwise": c = z3.And([z3.Not(x) for x in conds]) if conds else z3.BoolVal(True)
                        else: c = (v == z3.BitVecVal(int(k), v.size())); conds.append(c)
                        c = z3.simplify(z3.And(st.pc, c))
                        if z3.is_false(c): continue
                        feas.append((c, bb))
                    if not feas: return "break"
                    for c, bb in feas[1:]:
                        s2 = st.clone(); s2.pc = c; s2.frames[-1].bb, s2.frames[-1].i = bb, 0; work.append(s2)
                    st.pc = feas[0][0]; fr.bb, fr.i = feas[0][1], 0; return "continue"
                m = re.match(r"^assert\((!?)(.*?), \"(.*)\) -> \[success: (bb\d+), unwind", line)
                if m:
                    c = self.operand(st, m.group(2)); c = z3.Not(c) if m.group(1) else c
                    bad = z3.simplify(z3.And(st.pc, z3.Not(c)))
                    if not z3.is_false(bad):
                        s2 = st.clone(); s2.pc = bad; out.append(("panic", s2, "assert: " + m.group(3)[:80] + " @ " + fr.fn.name.split(">::")[-1]))
                    st.pc = z3.simplify(z3.And(st.pc, c))
                    if z3.is_false(st.pc): return "break"
                    fr.bb, fr.i = m.group(4), 0; return "continue"
                m = re.match(r"^drop\((.*?)\) -> \[return: (bb\d+)", line)
                if m:
                    pl = self.eval_place(st, parse_place(m.group(1)))
                    v = None
                    if pl[0] == "local" and pl[2] in st.frames[pl[1]].loc: v = self.project(st.frames[pl[1]].loc[pl[2]], pl[3])
                    elif pl[0] == "mem":
                        # dropping the old content of a shared cell before it is overwritten: scalars and abstract wakers have no drop effect
                        d_ = self.mem.get(pl[1].key())
                        if d_ is not None and (d_.get("codec") == "opt_waker" or (d_.get("codec") is None and d_["kind"] in ("plain", "array", "atomic"))):
                            self.intrinsics_used.add("drop of a shared scalar / Option<Waker> cell: no effect (abstract waker)")
                            fr.bb, fr.i = m.group(2), 0; return "continue"
                        raise EncodingError("drop of a shared-memory place: " + line)
                    r = self.drop_value(st, v)
                    if r[0] != "val": raise EncodingError("drop with effects: " + line)
                    fr.bb, fr.i = m.group(2), 0; return "continue"
                m = re.match(r"^(.+?) = (.*) -> \[return: (bb\d+)", line)
                m2 = re.match(r"^(.+?) = (.*) -> unwind", line) if not m else None
                if m or m2:
                    mm = m or m2
                    dest_ast = parse_place(mm.group(1)); nb = m.group(3) if m else None
                    callee, args = split_call(mm.group(2))
                    r = self.call(st, callee, args, dest_ast, nb)
                    done = self.apply_call_result(st, r, dest_ast, nb, out, work, line)
                    if done: return "break"
                    return "continue"
                m = re.match(r"^(.+?) = (.*);$", line)
                if m:
                    dest_ast = parse_place(m.group(1))
                    dt = fr.fn.types.get(dest_ast[1]) if dest_ast[0] == "local" else None
                    try:
                        val = self.rvalue(st, m.group(2), dt)
                    except (EncodingError, NeedLoad): raise
                    except Exception as e:
                        raise EncodingError("%s while evaluating `%s` in %s" % (e, line[:200], fr.fn.name[-80:]))
                    if isinstance(val, tuple) and val and val[0] == "memread":
                        p = val[1]
                        d = self.mem.get(p.key())
                        if d is None:
                            # pointer-like content (Box / &T): the pointee is a sub-object of the same root
                            val = Ptr(p.root, p.path + ("*",)) if p.idx is None else None
                            if val is None: raise EncodingError("read of undeclared array element " + repr(p))
                        else:
                            fr.i += 1
                            out.append(("vis", st, ("pload", p.key(), p.idx), dest_ast, None)); return "break"
                    pl = self.eval_place(st, dest_ast)
                    if pl[0] == "mem":
                        p = pl[1]; d_ = self.memdecl(p, "plain store")
                        if d_.get("codec"): val = encode_cell(d_["codec"], val)
                        fr.i += 1
                        out.append(("vis", st, ("pstore", p.key(), p.idx, val), None, None)); return "break"
                    self.write_local(st, pl[1], pl[2], pl[3], val); fr.i += 1; return "continue"
                raise EncodingError("statement: " + line)

    def assign(self, st, dest_ast, val):
        pl = self.eval_place(st, dest_ast)
        if pl[0] == "mem": raise EncodingError("call result assigned directly to shared memory")
        self.write_local(st, pl[1], pl[2], pl[3], val)

    def apply_call_result(self, st, r, dest_ast, nb, out, work, line):
        """returns True when the current path ended (visible op reached / diverged)"""
        fr = st.frames[-1]
        if r[0] == "val":
            if nb is None: return True
            self.assign(st, dest_ast, r[1]); fr.bb, fr.i = nb, 0; return False
        if r[0] == "call":
            if nb is None: raise EncodingError("diverging crate call: " + line)
            st.frames.append(Frame(r[1], r[2], (dest_ast, nb), r[3])); return False
        if r[0] == "vis":
            fr.bb, fr.i = nb, 0
            if len(r) > 2:       # the operation's own result is unit; the call's value was prepared in a scratch local
                self.assign(st, dest_ast, fr.loc.pop(r[2]))
                out.append(("vis", st, r[1], None, None)); return True
            out.append(("vis", st, r[1], dest_ast, None)); return True
        if r[0] == "panic":
            out.append(("panic", st, r[1])); return True
        if r[0] == "fork":
            alts = []
            for c, alt in r[1]:
                c2 = z3.simplify(z3.And(st.pc, c))
                if z3.is_false(c2): continue
                alts.append((c2, alt))
            if not alts: return True
            for c2, alt in alts[1:]:
                s2 = st.clone(); s2.pc = c2
                if not self.apply_call_result(s2, alt, dest_ast, nb, out, work, line): work.append(s2)
            st.pc = alts[0][0]
            return self.apply_call_result(st, alts[0][1], dest_ast, nb, out, work, line)
        raise EncodingError("call result kind " + r[0])
