"""Facts read from /repo's SOURCE on every run: where each type is defined and the declaration order of struct fields
(MIR field projections are by index)."""
import os, re

import sys
sys.path.insert(0, os.path.join(os.path.dirname(os.path.dirname(os.path.abspath(__file__))), "lib"))
import vpaths
REPO = vpaths.REPO
SRC = REPO + "/src"


def scan_types():
    """{TypeName: 'src/relative/path.rs'} for every struct/union/enum; module names of files with free functions (ogre_sync)"""
    out = {}
    for dp, _, fs in os.walk(SRC):
        for f in fs:
            if not f.endswith(".rs"): continue
            p = os.path.join(dp, f)
            rel = os.path.relpath(p, REPO)
            txt = open(p, errors="replace").read()
            for m in re.finditer(r"^\s*(?:pub(?:\([^)]*\))?\s+)?(?:struct|union|enum)\s+([A-Za-z_]\w*)", txt, re.M):
                out.setdefault(m.group(1), rel)
            if f == "ogre_sync.rs": out["ogre_sync"] = rel
    # several types share a simple name (Atomic, FullSync, Crossbeam ... channel structs): those are addressed by file explicitly
    return out


def struct_fields(rel_file, name):
    txt = open(os.path.join(REPO, rel_file), errors="replace").read()
    m = re.search(r"(?:struct|union)\s+%s\b[^{;]*\{" % re.escape(name), txt)
    if not m: raise KeyError("struct %s not found in %s" % (name, rel_file))
    i = m.end(); depth = 1; j = i
    while depth:
        if txt[j] == "{": depth += 1
        elif txt[j] == "}": depth -= 1
        j += 1
    body = txt[i:j - 1]
    body = re.sub(r"//[^\n]*", "", body)
    body = re.sub(r"/\*.*?\*/", "", body, flags=re.S)
    body = re.sub(r"#\[[^\]]*\]", "", body)
    fields = []
    depth = 0; cur = ""
    for ch in body:
        if ch in "<([{": depth += 1
        elif ch in ">)]}": depth -= 1
        if ch == "," and depth == 0:
            fields.append(cur.strip()); cur = ""
        else: cur += ch
    if cur.strip(): fields.append(cur.strip())
    names = []
    for f in fields:
        fm = re.match(r"^(?:pub(?:\([^)]*\))?\s+)?([A-Za-z_]\w*)\s*:", f)
        if fm: names.append(fm.group(1))
    return names
