"""Regenerates the MIR dump of /repo's CURRENT working tree (feature `verif` OFF: the shipped code path)."""
import os, subprocess, time, hashlib

import sys
sys.path.insert(0, os.path.join(os.path.dirname(os.path.dirname(os.path.abspath(__file__))), "lib"))
import vpaths
REPO = vpaths.REPO
BUILD = os.path.join(vpaths.BUILD, "mir")


def src_digest():
    h = hashlib.sha256()
    for dp, _, fs in sorted(os.walk(REPO + "/src")):
        for f in sorted(fs):
            if f.endswith(".rs"):
                p = os.path.join(dp, f); h.update(p.encode()); h.update(open(p, "rb").read())
    h.update(open(REPO + "/Cargo.toml", "rb").read())
    return h.hexdigest()


def dump(overflow_checks=True):
    """returns (path, seconds). The dump is redone whenever any source file changed (content digest), never reused across edits."""
    os.makedirs(BUILD, exist_ok=True)
    tag = "on" if overflow_checks else "off"
    out = os.path.join(BUILD, "lib-%s.mir" % tag); stamp = out + ".digest"
    dg = src_digest()
    if os.path.exists(out) and os.path.exists(stamp) and open(stamp).read() == dg and os.path.getsize(out) > 100000:
        return out, 0.0
    t0 = time.time()
    env = dict(os.environ); env["CARGO_TARGET_DIR"] = os.path.join(BUILD, "target"); env["CARGO_NET_OFFLINE"] = "true"
    env.pop("RUSTFLAGS", None)
    os.utime(REPO + "/src/lib.rs", None)
    cmd = ["cargo", "+nightly", "rustc", "--offline", "--lib", "--", "-Zunpretty=mir", "-C", "debug-assertions=off",
           "-C", "overflow-checks=" + tag]
    p = subprocess.run(cmd, cwd=REPO, env=env, stdout=subprocess.PIPE, stderr=subprocess.PIPE, text=True)
    if p.returncode != 0 or len(p.stdout) < 100000:
        raise RuntimeError("MIR dump failed (does /repo compile?):\n" + p.stderr[-2000:])
    open(out, "w").write(p.stdout); open(stamp, "w").write(dg)
    return out, time.time() - t0
