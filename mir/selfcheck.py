"""Translator validation (DESIGN 2.6): random SEQUENTIAL scripts are run (a) natively on the real containers (replayer, one thread)
and (b) through the MIR encoding with all inputs fixed (single-thread BMC, z3 as evaluator); every returned value must agree.
This guards the intrinsic models and the interpreter; it is not evidence for any property."""
import random, time, os, signal
import z3
from interp import Ptr, BV
from graph import build_thread
from bmc import BMC
import queries as Q
import replay


_n = [0]


class _Alarm(Exception):
    pass


def _on_alarm(signum, frame):
    raise _Alarm("script exceeded its wall-clock cap")


def _solve_single(b, extra):
    """the run is deterministic (one thread, all inputs fixed): kissat finds the only schedule, z3 then evaluates the model"""
    _n[0] += 1
    r = b.decide(extra, "/tmp/verif-selfcheck-%d" % os.getpid(), "sc%d" % _n[0], 30)
    if r["verdict"] != "sat": return None
    return b.model_for(extra, r.get("model_bits", {}), timeout_ms=15000)


def fifo_script(ctx, kind, N, rnd, length=(3, 4)):
    k = rnd.randint(0, N)
    origin = rnd.choice([0, 1, 0xFFFFFFFF, 0xFFFFFFFE, rnd.getrandbits(32)])
    prog = [rnd.choice(["send", "recv"]) for _ in range(rnd.randint(*length))]
    w, q, ops, pre = Q.fifo_object(ctx, kind, N, k)
    it = w.interp()
    calls = []; vals = []
    for j, op in enumerate(prog):
        if op == "send":
            v = w.sym("v0_%d" % j); vals.append((v, 0x2000 + rnd.getrandbits(16))); calls.append((ops["send"][0], [q, v], op))
        else: calls.append((ops["recv"][0], [q], op))
    g = build_thread(it, 0, calls, w.mem)
    b = BMC([g], w.mem, g.longest_path() + 12, {})
    prefill = [0x1000 + rnd.getrandbits(12) for _ in range(k)]
    extra = [w.inputs["origin"] == origin] + [p == BV(32, x) for p, x in zip(pre, prefill)] + [v == BV(32, x) for v, x in vals] + [b.all_done()]
    if "origin2" in w.inputs: extra.append(w.inputs["origin2"] == origin)
    m = _solve_single(b, extra)
    if m is None: return "SKIP: the solver did not produce the encoding's run of script %s within its cap (kind %s, N %d, k %d, origin %d)" % (prog, kind, N, k, origin)
    res = b.results(0, lambda j, v: (Q.ex_publish_movable(v) if prog[j] == "send" else Q.ex_option_u32(v)))
    model_out = []
    for j, op in enumerate(prog):
        if op == "send": model_out.append(("ok", z3.is_true(m.eval(res[j]["ok"], model_completion=True))))
        else:
            some = z3.is_true(m.eval(res[j]["some"], model_completion=True))
            model_out.append(("some", m.eval(res[j]["val"], model_completion=True).as_long()) if some else ("none", None))
    vi = iter(vals)
    nprog = [("send:%d" % next(vi)[1]) if op == "send" else "recv" for op in prog]
    origins = [origin, origin]
    h = replay.run_native(replay.spec_text(kind, N, origins, prefill, [nprog], [], []))
    if h["panics"] or h["stuck"] or h["timeout"]: return "SKIP: native run failed for %s: %s" % (nprog, h)
    evs = sorted(h["events"], key=lambda e: e["call"])
    native_out = []
    for e in evs:
        if e["op"] == "send": native_out.append(("ok", e["res"][:2] == ["ok", "true"]))
        else: native_out.append(("some", int(e["res"][1])) if e["res"][0] == "some" else ("none", None))
    if native_out != model_out:
        return "MISMATCH kind=%s N=%d origin=%d prefill=%s script=%s: native %s, encoding %s" % (kind, N, origin, prefill, nprog, native_out, model_out)
    return None


def run(ctx, n_scripts, seed, thorough=False):
    """-> dict(compared=int, mismatches=[...], seconds=float)"""
    ok, err = replay.build()
    if not ok: return {"compared": 0, "mismatches": ["replayer does not build: " + err], "seconds": 0.0}
    rnd = random.Random(1000 + seed)
    t0 = time.time(); bad = []; n = 0; skipped = []
    kinds = ["AtomicMove", "FullSyncMove", "AtomicZeroCopy", "FullSyncZeroCopy"] if thorough else ["AtomicMove", "FullSyncMove"]
    budget_s = 240 if thorough else 60          # no new script is started after this much time (the count that was compared is reported)
    for i in range(n_scripts):
        if time.time() - t0 > budget_s: break
        kind = kinds[i % len(kinds)]
        try:
            signal.signal(signal.SIGALRM, _on_alarm); signal.alarm(45)          # hard wall-clock cap per script
            zc = kind.endswith("ZeroCopy")
            r = fifo_script(ctx, kind, 2 if zc else rnd.choice([2, 4]), rnd, (2, 3) if zc else ((3, 5) if thorough else (3, 4)))
        except Exception as e:
            r = "SKIP: selfcheck error (%s): %s" % (type(e).__name__, str(e)[:300])
        finally:
            signal.alarm(0)
        if r and r.startswith("SKIP"): skipped.append(r); continue
        n += 1
        if r: bad.append(r)
    return {"compared": n, "mismatches": bad, "skipped": skipped, "seconds": round(time.time() - t0, 1)}
