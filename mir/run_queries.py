#!/usr/bin/env python3-vt
"""Runs the engine-M queries of one property/tier in parallel worker processes and prints one JSON document.
usage: run_queries.py <PROP> <tier> <seed> [name-filter,...]      |      run_queries.py --one <PROP> <tier> <query-name> <out.json>"""
import sys, os, json, time, subprocess, traceback
sys.path.insert(0, os.path.dirname(os.path.abspath(__file__)))
sys.path.insert(0, os.path.join(os.path.dirname(os.path.dirname(os.path.abspath(__file__))), "lib"))
import vpaths
WORK = os.path.join(vpaths.BUILD, "mir", "work")


def registry(tier):
    """{PROP: [ (name, tier, callable(ctx) -> record) ]}"""
    import queries as Q
    R = {}
    def add(prop, name, qtier, fn): R.setdefault(prop, []).append((name, qtier, fn))
    TO = 900 if tier == "quick" else int(os.environ.get("VERIF_THOROUGH_QUERY_TIMEOUT_S", "1800"))
    def fifo(prop, name, qtier, kind, N, k, threads, oracle, slack=3):
        add(prop, name, qtier, lambda ctx: Q.fifo_query(ctx, name, kind, N, k, threads, oracle, slack, TO))
    P, C = ["send"], ["recv"]
    # ---- C01: exactly-once delivery on the two rings and the two zero-copy wrappers
    fifo("C01", "c01_atomic_1p2c_n2_k2", "quick", "AtomicMove", 2, 2, [P, C, C], "exactly_once", 2)
    fifo("C01", "c01_atomic_2p1c_n2_k1", "quick", "AtomicMove", 2, 1, [P, P, C], "exactly_once", 2)
    fifo("C01", "c01_atomic_1p2c_n2_k0", "quick", "AtomicMove", 2, 0, [P, C, C], "exactly_once", 2)      # two dequeuers racing on an EMPTY ring
    fifo("C01", "c01_fullsync_2p1c_n2_k1", "quick", "FullSyncMove", 2, 1, [P, P, C], "exactly_once", 2)
    fifo("C01", "c01_fullsync_1p1c_full_n2", "quick", "FullSyncMove", 2, 2, [P, C], "exactly_once", 2)      # ring exactly FULL: the consumer frees a slot the producer is waiting for
    fifo("C01", "c01_atomic_1p1c_full_n2", "quick", "AtomicMove", 2, 2, [P, C], "exactly_once", 2)
    fifo("C01", "c01_zc_atomic_1p1c_n2_k1", "quick", "AtomicZeroCopy", 2, 1, [P, C + C], "exactly_once", 2)
    fifo("C01", "c01_zc_fullsync_1p1c_n2_k1", "quick", "FullSyncZeroCopy", 2, 1, [P, C + C], "exactly_once", 2)
    fifo("C01", "c01_atomic_2p1c_n2_k0", "thorough", "AtomicMove", 2, 0, [P, P, C + C], "exactly_once")
    fifo("C01", "c01_atomic_2p2c_n2_k1", "thorough", "AtomicMove", 2, 1, [P, P, C, C], "exactly_once", 2)
    fifo("C01", "c01_atomic_2p2c_n4_k3", "thorough", "AtomicMove", 4, 3, [P + P, P, C, C + C], "exactly_once")
    fifo("C01", "c01_atomic_3p1c_n2_k1", "thorough", "AtomicMove", 2, 1, [P, P, P, C + C], "exactly_once")
    fifo("C01", "c01_fullsync_2p2c_n2_k1", "thorough", "FullSyncMove", 2, 1, [P, P, C, C], "exactly_once")
    fifo("C01", "c01_zc_atomic_2p1c_n2_k1", "thorough", "AtomicZeroCopy", 2, 1, [P, P, C + C], "exactly_once")
    fifo("C01", "c01_zc_fullsync_2p1c_n2_k1", "thorough", "FullSyncZeroCopy", 2, 1, [P, P, C + C], "exactly_once")
    # ---- C02: linearizable bounded FIFO (no drain thread: the recorded history itself is the subject)
    def lin(name, qtier, kind, N, k, threads, slack=2):
        add("C02", name, qtier, lambda ctx: Q.fifo_query(ctx, name, kind, N, k, threads, "linearizable", slack, TO, drain=False))
    lin("c02_atomic_lin_c_pc_n2_k1", "quick", "AtomicMove", 2, 1, [C, P + C])            # a dequeue racing an enqueue+dequeue pair on one element
    lin("c02_fullsync_lin_1p2c_n2_k1", "quick", "FullSyncMove", 2, 1, [P, C, C])         # two consumers + a producer on the full-sync ring
    lin("c02_atomic_lin_1p2c_n2_k2", "quick", "AtomicMove", 2, 2, [P, C, C])
    lin("c02_atomic_lin_2p1c_n2_k1", "quick", "AtomicMove", 2, 1, [P, P, C])
    lin("c02_atomic_lin_pp_cc_n2_k1", "quick", "AtomicMove", 2, 1, [P + P, C + C])
    lin("c02_fullsync_lin_2p1c_n2_k1", "quick", "FullSyncMove", 2, 1, [P, P, C])
    lin("c02_zc_atomic_lin_p_cc_n2_k1", "quick", "AtomicZeroCopy", 2, 1, [P, C + C])
    lin("c02_atomic_lin_2p2c_n2_k1", "thorough", "AtomicMove", 2, 1, [P, P, C, C])
    lin("c02_atomic_lin_2p2c_n2_k2", "thorough", "AtomicMove", 2, 2, [P + P, P, C, C])
    lin("c02_atomic_lin_2p1c_n4_k3", "thorough", "AtomicMove", 4, 3, [P + P, P, C + C])
    lin("c02_fullsync_lin_2p2c_n2_k1", "thorough", "FullSyncMove", 2, 1, [P, P, C, C])
    lin("c02_zc_atomic_lin_pp_cc_n2_k1", "thorough", "AtomicZeroCopy", 2, 1, [P + P, C + C])
    lin("c02_zc_fullsync_lin_p_cc_n2_k1", "thorough", "FullSyncZeroCopy", 2, 1, [P, C + C])
    for prop, maker in getattr(Q, "EXTRA_REGISTRIES", []):
        maker(add, tier, TO)
    return R


def run_one(prop, tier, qname, out):
    import mirdump, queries as Q
    t0 = time.time()
    try:
        path, dt = mirdump.dump()
        ctx = Q.Ctx(path, tier, WORK)
        for name, qtier, fn in registry(tier).get(prop, []):
            if name == qname:
                rec = fn(ctx)
                if rec.get("verdict") == "inconclusive" and "reachability witness is unsat" in rec.get("why", ""):
                    # the step bound was sized from a path shorter than the uncontended run: decide again with the wider bound
                    import graph
                    first = {k: rec.get(k) for k in ("steps", "solver_s", "why")}
                    graph.WIDE = True
                    rec = fn(ctx)
                    rec["first_attempt_vacuous"] = first
                break
        else:
            rec = {"name": qname, "verdict": "inconclusive", "why": "unknown query"}
    except Exception as e:
        rec = {"name": qname, "verdict": "inconclusive", "why": "%s: %s" % (type(e).__name__, str(e)[:600]), "traceback": traceback.format_exc()[-1500:]}
    rec["wall_s"] = round(time.time() - t0, 1)
    if rec.get("verdict") == "violation":
        rp = os.path.join(vpaths.REPLAYS, "%s-%s.json" % (prop, qname))
        os.makedirs(vpaths.REPLAYS, exist_ok=True)
        json.dump({k: v for k, v in rec.items() if k in ("name", "symptom", "trace", "inputs", "results", "replay_spec", "native_history", "native_segments", "bounds", "threads")}, open(rp, "w"), indent=1)
        rec["replay"] = rp
    json.dump(rec, open(out, "w"), indent=1, default=str)


def main():
    if sys.argv[1] == "--one":
        run_one(sys.argv[2], sys.argv[3], sys.argv[4], sys.argv[5]); return
    prop, tier = sys.argv[1], sys.argv[2]
    filt = sys.argv[4].split(",") if len(sys.argv) > 4 and sys.argv[4] else None
    import mirdump
    t0 = time.time()
    path, dump_s = mirdump.dump()        # once, before the workers start (they then find the digest-stamped dump)
    # translator validation (DESIGN 2.6 / 8.2): a few random sequential scripts, real code vs. encoding, seeded by VERIF_SEED
    sc = {"compared": 0, "mismatches": [], "seconds": 0.0}
    if os.environ.get("VERIF_M_SELFCHECK", "1") == "1":
        try:
            import queries as Q, selfcheck
            sc = selfcheck.run(Q.Ctx(path, tier, WORK), 2 if tier == "quick" else 8, int(sys.argv[3]) if len(sys.argv) > 3 else 0, thorough=(tier != "quick"))
        except Exception as e:
            sc = {"compared": 0, "mismatches": ["selfcheck could not run: %s: %s" % (type(e).__name__, str(e)[:300])], "seconds": 0.0}
    # the driver (lib/props.py) is the authority on which queries belong to which tier: with an explicit list the names are taken as given
    names = [n for n, qt, _ in registry(tier).get(prop, []) if ((n in filt) if filt else (tier == "thorough" or qt == "quick"))]
    os.makedirs(WORK, exist_ok=True)
    jobs = int(os.environ.get("VERIF_MIR_JOBS", "8"))
    pending = list(names); running = {}; results = []
    while pending or running:
        while pending and len(running) < jobs:
            n = pending.pop(0); out = os.path.join(WORK, "%s-%s.json" % (prop, n))
            if os.path.exists(out): os.remove(out)
            running[n] = (subprocess.Popen([sys.executable, os.path.abspath(__file__), "--one", prop, tier, n, out], stdout=subprocess.DEVNULL, stderr=subprocess.PIPE, text=True), out)
        time.sleep(0.5)
        for n, (p, out) in list(running.items()):
            if p.poll() is not None:
                del running[n]
                try: results.append(json.load(open(out)))
                except Exception: results.append({"name": n, "verdict": "inconclusive", "why": "worker died: " + (p.stderr.read() or "")[-500:]})
    out = {"results": results, "stats": {"mir_dump_s": round(dump_s, 1), "queries": len(names), "wall_s": round(time.time() - t0, 1), "mir_file": path,
                                           "translator_selfcheck": {"sequential_scripts_compared_native_vs_encoding": sc["compared"], "mismatches": sc["mismatches"], "skipped": sc.get("skipped", []), "seconds": sc["seconds"]}}}
    if sc["mismatches"]: out["error"] = "translator self-check failed (the encoding disagrees with the real code): " + "; ".join(sc["mismatches"])[:1500]
    print(json.dumps(out, default=str))


if __name__ == "__main__":
    main()
