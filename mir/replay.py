"""Native replay of engine-M counterexamples: the decoded schedule is run against the REAL code (crate /verif/replay, built
from /repo's current tree with feature `verif`) under a controlled scheduler; the oracle is then evaluated on the history
the real code produced. Only a reproduced symptom is reported as a violation."""
import os, sys, subprocess, itertools, shutil
sys.path.insert(0, os.path.join(os.path.dirname(os.path.dirname(os.path.abspath(__file__))), "lib"))
import vpaths

REPLAY_CRATE = vpaths.crate("replay")
TARGET = os.path.join(vpaths.BUILD, "replay-target")
BIN = os.path.join(TARGET, "debug", "rmreplay")
_built = {}


def build():
    if _built.get("ok"): return True, ""
    env = dict(os.environ); env["CARGO_NET_OFFLINE"] = "true"; env["CARGO_TARGET_DIR"] = TARGET
    env.pop("RUSTFLAGS", None)
    try: shutil.copyfile(vpaths.REPO + "/Cargo.lock", os.path.join(REPLAY_CRATE, "Cargo.lock"))
    except Exception: pass
    p = subprocess.run(["cargo", "build", "--offline"], cwd=REPLAY_CRATE, env=env, stdout=subprocess.PIPE, stderr=subprocess.STDOUT, text=True)
    if p.returncode != 0: return False, p.stdout[-1500:]
    _built["ok"] = True
    return True, ""


def run_native(spec_txt, timeout_s=6):
    try:
        p = subprocess.run([BIN], input=spec_txt, stdout=subprocess.PIPE, stderr=subprocess.PIPE, text=True, timeout=timeout_s)
    except subprocess.TimeoutExpired:
        return {"events": [], "stuck": [], "panics": [], "timeout": True}
    ev, stuck, panics = [], [], []
    for l in p.stdout.splitlines():
        f = l.split()
        if not f: continue
        if f[0] == "ev":
            e = {"thread": int(f[1]), "call": int(f[2]), "op": f[3], "arg": int(f[4]), "first": int(f[5]), "last": int(f[6]), "res": f[7:]}
            ev.append(e)
        elif f[0] == "stuck": stuck.append(int(f[1]))
        elif f[0] == "panic": panics.append(" ".join(f[1:]))
    return {"events": ev, "stuck": stuck, "panics": panics, "timeout": False, "stderr": p.stderr[-400:]}


def segments_from_trace(trace, skip_threads=()):
    segs = []
    for s in trace:
        t = s["thread"]
        if t in skip_threads: continue
        if segs and segs[-1][0] == t: segs[-1][1] += 1
        else: segs.append([t, 1])
    return segs


def spec_text(kind, n, origins, prefill, threads, after, segs):
    lines = ["object %s %d" % (kind, n), "origin " + " ".join(str(o) for o in origins)]
    if prefill: lines.append("prefill " + " ".join(str(v) for v in prefill))
    for prog in threads: lines.append("thread " + " ".join(prog))
    if after: lines.append("after " + " ".join(after))
    lines.append("segments " + " ".join("%d:%d" % (t, c) for t, c in segs))
    return "\n".join(lines) + "\n"


def search(kind, n, origins, prefill, threads, after, segs, symptom, max_runs=400, grid=48):
    """runs the model schedule natively; if the symptom does not show, perturbs the segment counts (the model counts visible
    operations, the hooks sit before statements -- the two can differ by one here and there). symptom(history) -> str | None"""
    ok, err = build()
    if not ok: return None, "replayer does not build: " + err, 0
    tried = 0
    import time as _time
    deadline = _time.time() + float(os.environ.get("VERIF_REPLAY_BUDGET_S", "240"))
    class _OutOfTime(Exception): pass
    def attempt(sg):
        nonlocal tried
        if _time.time() > deadline: raise _OutOfTime()
        tried += 1
        h = run_native(spec_text(kind, n, origins, prefill, threads, after, sg))
        s = symptom(h)
        return (s, h)
    base = [list(x) for x in segs]
    # phase 1: the model schedule and small perturbations of it (at most a quarter of the time budget)
    full_deadline = deadline; deadline = _time.time() + (full_deadline - _time.time()) / 4
    try: r_ = _controlled(base, attempt, max_runs, 0)
    except _OutOfTime: r_ = None
    if r_: return r_, "", tried
    # phase 2: a short free-running stress (windows of a few instructions that no yield hook can split)
    found, why2, rounds = stress(kind, n, origins, prefill, threads, after, symptom, rounds=4000, timeout_s=30)
    if found: return found, "", tried + rounds
    # phase 3: grid over the first two context switches
    deadline = full_deadline
    try: r_ = _controlled(base, attempt, 0, grid, grid_only=True)
    except _OutOfTime: r_ = None
    if r_: return r_, "", tried
    found, why2, rounds = stress(kind, n, origins, prefill, threads, after, symptom)
    if found: return found, "", tried + rounds
    return None, "symptom not reproduced natively in %d controlled runs; %s" % (tried, why2), tried


def _controlled(base, attempt, max_runs, grid, grid_only=False):
    tried = 0
    deltas = [-1, 1, 2, -2, 3]
    if not grid_only:
        s, h = attempt(base)
        if s: return {"segments": base, "history": h, "symptom": s}
    for i in (range(len(base)) if not grid_only else []):
        for d in deltas:
            sg = [list(x) for x in base]; sg[i][1] = max(0, sg[i][1] + d)
            s, h = attempt(sg)
            if s: return {"segments": sg, "history": h, "symptom": s}
    for i, j in (itertools.combinations(range(len(base)), 2) if not grid_only else []):
        for d1 in deltas[:3]:
            for d2 in deltas[:3]:
                sg = [list(x) for x in base]; sg[i][1] = max(0, sg[i][1] + d1); sg[j][1] = max(0, sg[j][1] + d2)
                s, h = attempt(sg)
                if s: return {"segments": sg, "history": h, "symptom": s}
    # grid over the first two context switches (the model counts visible operations, the hooks sit before statements: the two
    # counts can drift apart over a long segment); the remaining segments run their thread to completion, in the model's order
    if len(base) >= 2 and grid > 0:
        rest = [[t, 1000] for t, _ in base[2:]]
        order = sorted(((a, b2) for a in range(0, grid) for b2 in range(0, grid)), key=lambda ab: abs(ab[0] - base[0][1]) + abs(ab[1] - base[1][1]))
        for a, b2 in order:
            sg = [[base[0][0], a], [base[1][0], b2]] + rest
            s, h = attempt(sg)
            if s: return {"segments": sg, "history": h, "symptom": s}
    return None


def stress(kind, n, origins, prefill, threads, after, symptom, rounds=200000, timeout_s=150):
    """fallback: uncontrolled replay -- the same thread programs on free-running OS threads, a fresh object per round. Needed when
    the model schedule switches threads between two shared accesses of ONE statement, where no yield hook can sit."""
    ok, err = build()
    if not ok: return None, "replayer does not build: " + err, 0
    txt = spec_text(kind, n, origins, prefill, threads, after, []).replace("segments \n", "") + "free %d\n" % rounds
    crashed = None
    try:
        p = subprocess.run([BIN], input=txt, stdout=subprocess.PIPE, stderr=subprocess.PIPE, text=True, timeout=timeout_s)
        out = p.stdout
        if p.returncode < 0 or p.returncode in (134, 139):
            crashed = "the real code crashed natively (%s) after %d free-running rounds of the model's thread programs: memory corruption (double free / use after free)" % (
                "signal %d" % -p.returncode if p.returncode < 0 else "exit status %d" % p.returncode, out.count("\nround ") + (1 if out.startswith("round ") else 0))
    except subprocess.TimeoutExpired as e:
        out = (e.stdout or b"").decode() if isinstance(e.stdout, bytes) else (e.stdout or "")
    cur = None; n_rounds = 0
    def flush(cur):
        if cur is None: return None
        return symptom({"events": cur["ev"], "stuck": [], "panics": cur["panics"], "timeout": False})
    for l in out.splitlines():
        f = l.split()
        if not f: continue
        if f[0] == "round":
            s = flush(cur)
            if s: return {"segments": "free-running threads, round %d" % (n_rounds - 1), "history": {"events": cur["ev"]}, "symptom": s}, "", n_rounds
            cur = {"ev": [], "panics": []}; n_rounds += 1
        elif f[0] == "ev" and cur is not None:
            cur["ev"].append({"thread": int(f[1]), "call": int(f[2]), "op": f[3], "arg": int(f[4]), "first": int(f[5]), "last": int(f[6]), "res": f[7:]})
        elif f[0] == "panic" and cur is not None: cur["panics"].append(" ".join(f[1:]))
    s = flush(cur)
    if s: return {"segments": "free-running threads, round %d" % (n_rounds - 1), "history": {"events": cur["ev"]}, "symptom": s}, "", n_rounds
    if crashed: return {"segments": "free-running threads, round %d" % n_rounds, "history": {"events": (cur or {"ev": []})["ev"]}, "symptom": crashed}, "", n_rounds
    return None, "symptom not reproduced in %d free-running rounds either" % n_rounds, n_rounds


# ---- native oracles (plain Python over the observed history) -------------------------------------------------
def _val(e):
    return int(e["res"][1]) if e["res"] and e["res"][0] == "some" else None


def fifo_symptom(oracle, n, prefill, relaxed=True):
    def exactly_once(h):
        if h["panics"]: return "panic: " + h["panics"][0]
        if h["stuck"] or h["timeout"]: return None
        valid = list(prefill) + [e["arg"] for e in h["events"] if e["op"] == "send" and e["res"][:2] == ["ok", "true"]]
        got = [_val(e) for e in h["events"] if e["op"] in ("recv", "drain") and _val(e) is not None]
        for v in got:
            if v not in valid: return "received %d which was never accepted" % v
        if len(set(got)) != len(got): return "an event was received twice: %s" % got
        for v in valid:
            if v not in got: return "accepted event %d was never delivered (received: %s)" % (v, got)
        return None

    def linearizable(h):
        if h["panics"]: return "panic: " + h["panics"][0]
        if h["stuck"] or h["timeout"]: return None
        ops = [e for e in h["events"]]
        by_t = {}
        for e in ops: by_t.setdefault(e["thread"], []).append(e)
        for t in by_t: by_t[t].sort(key=lambda e: e["call"])
        def overlap(a, b): return not (a["last"] < b["first"]) and not (b["last"] < a["first"])
        inprog = {id(a): sum(1 for b in ops if b is not a and b["thread"] != a["thread"] and overlap(a, b)) for a in ops}
        def rec(pos, queue, placed):
            if all(pos[t] == len(by_t[t]) for t in by_t): return True
            for t in by_t:
                if pos[t] == len(by_t[t]): continue
                e = by_t[t][pos[t]]
                # real-time order: e may be placed now only if no unplaced op finished before e started
                if any(pos[u] < len(by_t[u]) and by_t[u][pos[u]]["last"] < e["first"] for u in by_t if u != t): continue
                q2 = list(queue)
                if e["op"] == "send":
                    acc = e["res"][:2] == ["ok", "true"]
                    if acc:
                        if len(q2) >= n: continue
                        q2.append(e["arg"])
                    else:
                        if len(q2) + (inprog[id(e)] if relaxed else 0) < n: continue
                else:
                    v = _val(e)
                    if v is None:
                        if q2: continue
                    else:
                        if not q2 or q2[0] != v: continue
                        q2.pop(0)
                pos2 = dict(pos); pos2[t] += 1
                if rec(pos2, q2, placed + 1): return True
            return False
        if rec({t: 0 for t in by_t}, list(prefill), 0): return None
        return "history is not linearizable as a bounded FIFO: " + "; ".join("t%d %s(%s)->%s [%d,%d]" % (e["thread"], e["op"], e["arg"], " ".join(e["res"]), e["first"], e["last"]) for e in ops)
    return exactly_once if oracle == "exactly_once" else linearizable
