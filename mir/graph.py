"""Per-thread control graphs whose nodes are VISIBLE operations. Local code between two visible operations is folded into
guarded edges. Node identity = (call index, call-stack positions, structurally printed LIVE locals, op descriptor), so spin
loops become cycles instead of infinite unfoldings. Results of visible operations are placeholder constants ('registers')
that the BMC instantiates per step."""
import re
import z3
from mirparse import EncodingError, parse_place, place_locals
from interp import Interp, Frame, TState, Ptr, LRef, Agg, Enum, UNIT, sx, BV, decode_cell

_LIVE = {}
_ADDR_TAKEN = {}


def _uses_defs(line):
    m = re.match(r"^(_\d+) = (.*)$", line)
    if m:
        return set(re.findall(r"_\d+", m.group(2))), {m.group(1)}
    return set(re.findall(r"_\d+", line)), set()


def _succs(line):
    if "->" not in line:
        return []
    return re.findall(r"bb\d+", line.split("->", 1)[1])


def liveness(fn):
    if fn.name in _LIVE:
        return _LIVE[fn.name]
    live_in = {b: set() for b in fn.blocks}
    changed = True
    while changed:
        changed = False
        for b, lines in fn.blocks.items():
            live = set()
            for sb in _succs(lines[-1]):
                if sb in live_in: live |= live_in[sb]
            for l in reversed(lines):
                u, d = _uses_defs(l); live = (live - d) | u
            if live != live_in[b]:
                live_in[b] = live; changed = True
    _LIVE[fn.name] = live_in
    at = set()
    for lines in fn.blocks.values():
        for l in lines:
            for m in re.finditer(r"&(?:mut |raw mut |raw const )?(_\d+)\b", l):
                at.add(m.group(1))
            for m in re.finditer(r"&(?:mut |raw mut |raw const )?\((_\d+)[. ]", l):
                at.add(m.group(1))
    _ADDR_TAKEN[fn.name] = at
    return live_in


def live_at(fn, bb, i):
    li = liveness(fn); lines = fn.blocks[bb]
    live = set()
    for sb in _succs(lines[-1]):
        if sb in li: live |= li[sb]
    for l in reversed(lines[i:]):
        u, d = _uses_defs(l); live = (live - d) | u
    return live | _ADDR_TAKEN[fn.name]


def state_key(st):
    parts = []
    for fi, fr in enumerate(st.frames):
        top = fi == len(st.frames) - 1
        if top:
            lv = live_at(fr.fn, fr.bb, fr.i)
        else:
            lv = live_at(fr.fn, fr.bb, len(fr.fn.blocks[fr.bb]) - 1)
        extra = [l for l in fr.loc if l.startswith("_clo") or l.startswith("__mr:")]
        parts.append((fr.fn.name, fr.bb, fr.i, fr.ret_xform or "", tuple((l, sx(fr.loc[l])) for l in sorted(set(lv) | set(extra)) if l in fr.loc)))
    return tuple(parts)


class Node:
    pass


WIDE = False          # see ThreadGraph.step_budget


class ThreadGraph:
    def __init__(self, tid, nodes, root, calls):
        self.tid, self.nodes, self.root, self.calls = tid, nodes, root, calls

    def vis(self):
        return [n for n in self.nodes if n.kind == "vis"]

    def shortest_path(self):
        """fewest visible operations from the root to a done node (an uncontended run)"""
        import heapq
        dist = {self.root: 0}; h = [(0, self.root)]
        while h:
            d, nid = heapq.heappop(h)
            if d > dist.get(nid, 1 << 30): continue
            n = self.nodes[nid]
            if n.kind == "done": return d
            if n.kind == "vis": nxt = [(n.child, 1)]
            elif n.kind == "branch": nxt = [(c, 0) for _, c in n.branches]
            else: nxt = []
            for c, wgt in nxt:
                if d + wgt < dist.get(c, 1 << 30): dist[c] = d + wgt; heapq.heappush(h, (d + wgt, c))
        return self.longest_path()

    def step_budget(self):
        """steps granted to this thread when sizing the global bound: its longest acyclic path, capped at twice the uncontended
        run + 4 (retry ladders such as ogre_sync::lock's ten attempts would otherwise inflate the bound). The shortest path is
        only a stand-in for the uncontended run: code with an early exit (a fast path answering 'empty') has a much shorter one,
        the bound then is too small for all threads to finish and the reachability witness comes back unsat. The runner answers
        that by deciding the query again with WIDE set (cap: four times the shortest path + 12)."""
        if WIDE: return min(self.longest_path(), 4 * self.shortest_path() + 12)
        return min(self.longest_path(), 2 * self.shortest_path() + 4)

    def longest_path(self):
        """longest acyclic path (in visible nodes) from the root to a done node -- used to size the step bound"""
        import sys
        sys.setrecursionlimit(10000)
        best = {}
        def succ(nid):
            n = self.nodes[nid]
            if n.kind == "vis": return [n.child]
            if n.kind == "branch": return [c for _, c in n.branches]
            return []
        def dfs(nid, onpath):
            n = self.nodes[nid]
            w = 1 if n.kind == "vis" else 0
            b = w
            for s in succ(nid):
                if s in onpath: continue
                b = max(b, w + dfs(s, onpath | {s}))
            return b
        return dfs(self.root, {self.root})


def build_thread(interp, tid, calls, mem):
    """calls: list of (Fn, [arg values], label). Returns ThreadGraph."""
    nodes, memo = [], {}

    def mk(kind, **kw):
        n = Node(); n.id = len(nodes); n.kind = kind; n.__dict__.update(kw); nodes.append(n); return n

    def result_value(n, desc):
        kind = desc[0]
        def reg(name, sort):
            return z3.Const("t%d_n%d_%s" % (tid, n.id, name), sort)
        if kind in ("aload", "afadd", "afsub", "aswap", "armw"):
            srt = mem[desc[1]]["sort"]; r = reg("r", srt); n.rvars = [r]; return r
        if kind == "pload":
            srt = mem[desc[1]]["sort"]; r = reg("r", srt); n.rvars = [r]
            if mem[desc[1]].get("codec"): return decode_cell(mem[desc[1]]["codec"], r)
            return r
        if kind == "acas":
            srt = mem[desc[1]]["sort"]; ok = reg("ok", z3.BoolSort()); old = reg("old", srt); n.rvars = [ok, old]
            return Enum("Result", z3.If(ok, BV(64, 0), BV(64, 1)), {0: [old], 1: [old]})
        n.rvars = []
        return UNIT

    UNROLL = 3      # retry loops whose state changes in every iteration (fresh reads feed the next attempt) are unrolled this many times

    def explore(st, callidx, results, seen=None):
        seen = seen or {}
        outs = interp.run(st)
        branches = []
        for o in outs:
            if o[0] == "vis":
                _, s2, desc, dest, _ = o
                if dest is not None and dest[0] == "local":
                    s2.frames[-1].loc.pop(dest[1], None)          # about to be overwritten by the operation's result
                key = (callidx, state_key(s2), sx(desc), sx(dest), tuple(sx(r) for r in results))
                if key in memo:
                    branches.append((s2.pc, memo[key])); continue
                fr_ = s2.frames[-1]
                # program point = the whole call stack (so that the same callee reached from different call sites is not mistaken for a loop)
                pp = (callidx, tuple((f_.fn.name, f_.bb, f_.i) for f_ in s2.frames), sx(desc[:2]))
                cnt = seen.get(pp, 0) + 1
                if cnt > UNROLL:
                    n = mk("cut", call=callidx, where="%s %s" % (fr_.fn.name.split(">::")[-1], fr_.bb)); branches.append((s2.pc, n.id)); continue
                seen2 = dict(seen); seen2[pp] = cnt
                n = mk("vis", desc=desc, call=callidx, pc=s2.pc)
                memo[key] = n.id
                rv = result_value(n, desc)
                if dest is not None:
                    interp.assign(s2, dest, rv)
                guard = s2.pc
                s2.pc = z3.BoolVal(True)
                n.child = explore(s2, callidx, results, seen2)
                branches.append((guard, n.id))
            elif o[0] == "done":
                _, s2, ret = o
                res2 = results + [ret]
                if callidx + 1 < len(calls):
                    fn, args, _ = calls[callidx + 1]
                    args = [a(res2) if callable(a) else a for a in args]
                    s3 = TState([Frame(fn, args, None)], z3.BoolVal(True))
                    branches.append((s2.pc, explore(s3, callidx + 1, res2, {})))
                else:
                    n = mk("done", results=res2); branches.append((s2.pc, n.id))
            elif o[0] == "panic":
                if isinstance(o[2], str) and o[2].startswith("ASSUMED-UNREACHABLE"):
                    # a path the query's bounds are meant to exclude (e.g. the sleep-and-retry of a full listener queue): it is not explored
                    # further, and the query reports it if the solver finds it reachable after all (fail closed)
                    n = mk("cut", call=callidx, where=o[2], assumed=True); branches.append((o[1].pc, n.id))
                else:
                    n = mk("panic", msg=o[2], call=callidx); branches.append((o[1].pc, n.id))
        if len(branches) == 1 and z3.is_true(z3.simplify(branches[0][0])):
            return branches[0][1]
        n = mk("branch", branches=branches)
        return n.id

    fn, args, _ = calls[0]
    args = [a([]) if callable(a) else a for a in args]
    root = explore(TState([Frame(fn, args, None)]), 0, [])
    return ThreadGraph(tid, nodes, root, calls)
