import sys, time, z3
sys.path.insert(0, '/verif/mir')
import mirdump, layout
from mirparse import parse, Index
from queries import *
path, dt = mirdump.dump(); print('mir', path, dt)
ix = Index(parse(open(path).read())); tf = layout.scan_types()
N = 2
w = World(ix, tf, {"BUFFER_SIZE": N}, {"SlotType": "u32"})
origin = w.sym("origin")
w.atomic_move("q", (), N, origin, [])
it = w.interp()
pub = fn_of(w, "AtomicMove", "publish_movable"); con = fn_of(w, "AtomicMove", "consume_movable")
q = Ptr("q")
v1, v2 = w.sym("v1"), w.sym("v2")
t0 = time.time()
g0 = build_thread(it, 0, [(pub, [q, v1], "send")], w.mem)
g1 = build_thread(it, 1, [(pub, [q, v2], "send")], w.mem)
g2 = build_thread(it, 2, [(con, [q], "recv"), (con, [q], "recv")], w.mem)
for g in (g0, g1, g2):
    kinds = {}
    for n in g.nodes: kinds[n.kind] = kinds.get(n.kind, 0) + 1
    print('thread', g.tid, kinds, 'longest', g.longest_path())
print('graphs', time.time() - t0)
S = int(sys.argv[1]) if len(sys.argv) > 1 else 22
t0 = time.time()
b = BMC([g0, g1, g2], w.mem, S)
print('encode', time.time() - t0, len(b.asserts))
r = b.results(2, lambda j, v: ex_option_u32(v))
bad = []
for x in r:
    bad.append(z3.And(x["some"], x["val"] != v1, x["val"] != v2))
bad.append(z3.And(r[0]["some"], r[1]["some"], r[0]["val"] == r[1]["val"]))
extra = [v1 != v2, b.all_done(), z3.Or(z3.Or(bad), b.any_panic(), b.err[S])]
res = b.decide(extra, '/verif/.build/mir/work', 'dev', 600)
print({k: v for k, v in res.items() if k != 'model_bits'})
wit = b.decide([v1 != v2, b.all_done()], '/verif/.build/mir/work', 'devw', 600)
print('witness', {k: v for k, v in wit.items() if k != 'model_bits'})
if wit['verdict'] == 'sat':
    m = b.model_for([v1 != v2, b.all_done()], wit['model_bits'])
    print(b.decode_schedule(m) if m else 'no model')
print('intrinsics', sorted(it.intrinsics_used)); print('functions', sorted(it.functions_used))
