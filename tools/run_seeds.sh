#!/bin/bash
# run_seeds.sh <seed-id>:<PROP>[:tier] ...   -- for each pair: fresh scratch worktree of /repo's HEAD with the seeded patch applied, the
# check is run against it (VERIF_REPO redirect: nothing under /verif/evidence or /verif/replays is touched), the worktree is removed.
# Appends one line per run to seeded/results.log
cd "$(dirname "$0")/.." || exit 1
V=$PWD
for spec in "$@"; do
  IFS=: read seed prop tier <<< "$spec"; tier=${tier:-quick}
  wt=/tmp/wt-seed-$seed
  git -C /repo worktree remove --force $wt 2>/dev/null
  git -C /repo worktree add -q $wt HEAD || { echo "$seed: cannot create worktree"; continue; }
  cp /repo/Cargo.lock $wt/
  if ! git -C $wt apply $V/seeded/$seed/patch.diff; then echo "$(date +%H:%M) seed=$seed check=$prop -> PATCH DOES NOT APPLY" >> seeded/results.log; git -C /repo worktree remove --force $wt; continue; fi
  s=$(date +%s)
  VERIF_REPO=$wt timeout 3600 ./check $prop --tier $tier > /tmp/seedrun-$seed-$prop.log 2>&1; rc=$?
  echo "$(date +%H:%M) seed=$seed check=$prop tier=$tier -> exit $rc ($(( $(date +%s)-s ))s): $(grep -E '^VIOLATION|^  role=|^INCONCLUSIVE|^KNOWN' /tmp/seedrun-$seed-$prop.log | head -4 | cut -c1-260 | tr '\n' ' ')" >> seeded/results.log
  git -C /repo worktree remove --force $wt
  rm -rf $V/.build/alt-wt-seed-$seed
done
