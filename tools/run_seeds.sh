#!/bin/bash
# run_seeds.sh <seed-id> <PROP> [--only filter] ... : applies the seeded patch to /repo, runs the check, reverts. Appends to seeded/results.log
seed=$1; shift; prop=$1; shift
cd /repo && git apply /verif/seeded/$seed/patch.diff || { echo "$seed: patch does not apply"; exit 9; }
cd /verif && ./check $prop "$@" > .build/logs/seed-$seed-$prop.log 2>&1; rc=$?
cd /repo && git checkout -- . 
echo "$(date +%H:%M) seed=$seed check=$prop $* -> exit $rc : $(grep -E '^VIOLATION|^INCONCLUSIVE|^KNOWN' /verif/.build/logs/seed-$seed-$prop.log | head -3 | tr '\n' ' ')" >> /verif/seeded/results.log
exit $rc
