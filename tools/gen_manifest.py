#!/usr/bin/env python3
"""Regenerates /verif/MANIFEST.json from lib/props.py (claimed properties) and the NOT_APPLICABLE table below."""
import json, os, sys
HERE = os.path.dirname(os.path.dirname(os.path.abspath(__file__)))
sys.path.insert(0, os.path.join(HERE, "lib"))
import props

ALL = ["C%02d" % i for i in range(1, 21)]

NOT_APPLICABLE = {
    "C06": "graceful close is an async fn over Tokio timers racing >= 2 live executor tasks (tokio::spawn, futures-util for_each_concurrent/FuturesUnordered): Kani has no runtime (Sleep/JoinHandle cannot be stubbed; the inline-spawn probe did not leave symbolic execution in 25 min) and the MIR encoder does not translate coroutines or dependency schedulers; a hand-written model would not be the real code (DESIGN.md C06)",
    "C11": "the per-item accounting exists only inside tokio::spawn-ed coroutines of stream_executor.rs; the inline-spawn Kani probe did not terminate (FuturesUnordered drop glue), timeout/concurrency-limit are contracts of tokio::time::timeout / futures-util; not encodable within reach (DESIGN.md C11)",
    "C12": "same code location as C11 plus a futures async Mutex latch and an old->new executor hand-over that need several live Tokio tasks; neither engine can provide that (DESIGN.md C12)",
}
NOT_APPLICABLE["C17"] = ("the interleavings that matter put a sender inside its fan-out loop while StreamsManagerBase::sync_vacant_and_used_streams rewrites used_streams[]; that function is Vec / concat / sort_unstable / iterator code: outside the MIR subset of the schedule-exploring engine, and in Kani ONE call of it already costs 10-60 s (a symbolic origin: > 15 min, > 14 GB), so that nesting a complete send at a solver-chosen yield point of it (or vice versa) did not finish within 25 min; no bounded solver query over the real code decides this property within reach on this machine. The sequential consequences of a broken live-list rebuild (stale ids, missing sentinel, stale events for a recycled id) are decided under C10 (DESIGN.md 8.6)")
PENDING_REASON = "check not built yet in this round (see DESIGN.md section 4 for the plan); not claimed"

def main():
    checks = []
    for pid in ALL:
        spec = props.PROPS.get(pid)
        if not spec or not spec.get("claimed", True):
            continue
        checks.append({
            "property_id": pid,
            "quick_cmd": "./check %s --tier quick" % pid,
            "thorough_cmd": "./check %s --tier thorough" % pid,
            "evidence_file": "/verif/evidence/%s.json" % pid,
            "replay_cmd_template": "cat {path}",
            "engine": spec.get("engine", "kani-real"),
            "level_claimed": {
                "category": "model_checking",
                "text": spec.get("level_text", "bounded, solver-decided: holds for every input / history / origin / nesting point within the stated bounds; a counterexample is replayed against the real build before it is reported"),
                "design_ref": "DESIGN.md section 4, " + pid,
            },
            "level_note": spec.get("level_note", "trusted: Kani 0.68 + CBMC 6.11 (CaDiCaL), rustc MIR; for engine M also the MIR->SAT encoder (validated per run against native executions), z3 as bit-blaster and kissat; sequential consistency; bounds as listed in the evidence file"),
            "technique": spec.get("technique", "solver-based checking of the real code: Kani (CBMC bounded model checking) harnesses over kani::any() scripts, origins and nesting points"),
        })
    na = []
    for pid in ALL:
        if pid in [c["property_id"] for c in checks]:
            continue
        na.append({"property_id": pid, "reason": NOT_APPLICABLE.get(pid, PENDING_REASON)})
    m = {
        "version": 1,
        "setup_cmd": "./setup.sh",
        "hooks": {
            "guard": "cargo feature `verif` of reactive-mutiny (off by default)",
            "enable": "the harness crate /verif/kani depends on reactive-mutiny = { path = \"/repo\", features = [\"verif\"] }; engine M reads the MIR of the feature-off build",
            "baseline_off_cmd": "cd /repo && cargo test --workspace --no-fail-fast --offline -- --test-threads 8",
            "source_commits": json.load(open(os.path.join(HERE, "hooks", "commits.json"))),
            "add_only": True,
        },
        "engines": [
            {"name": "kani-real", "path": "/verif/kani", "serves_properties": [c["property_id"] for c in checks if "kani" in c["engine"]],
             "kind_free_text": "Kani 0.68 proof harnesses (CBMC 6.11 + CaDiCaL) over the real crate: symbolic scripts, symbolic sequence origins, inductive steps from symbolic pre-states, depth-1 nested interference at yield hooks, abstract waker via Kani stubs"},
            {"name": "mir-bmc", "path": "/verif/mir", "serves_properties": [c["property_id"] for c in checks if "mir" in c["engine"]],
             "kind_free_text": "our encoder: rustc MIR of /repo (regenerated each run) -> guarded commands per thread -> bit-vector BMC with a symbolic scheduler -> CNF (z3 bit-blast) -> kissat; counterexample schedules replayed natively through verif::yield_point()"},
        ],
        "checks": checks,
        "not_applicable": na,
        "notes": "exit codes: 0 = everything explored holds within the stated bounds (KNOWN-FINDING lines for listed findings; queries that ran out of their time budget are printed as NOT-EXPLORED and listed in the evidence, never counted as held); 1 = VIOLATION (counterexample replayed against the real build); 2 = inconclusive (nothing decided, out of memory, vacuous harness, encoding error, translator self-check mismatch, counterexample that does not reproduce natively). Known findings and the record of repaired defects: /verif/known_findings.json. Design, bounds, findings and seeded-defect results: /verif/DESIGN.md section 8.",
    }
    json.dump(m, open(os.path.join(HERE, "MANIFEST.json"), "w"), indent=1)
    print("MANIFEST.json: %d checks, %d not applicable/pending" % (len(checks), len(na)))

if __name__ == "__main__":
    main()
