#!/bin/bash
# confirm_seed.sh <seed-id> <worktree> [extra cargo test args for the demo, e.g. "--features verif"]
# Confirms a seeded defect produced by a sub-agent: (1) suite passes with the change, (2) demo fails with it, (3) demo passes without it.
# Writes /verif/seeded/<seed-id>/{patch.diff,seeded_demo.rs,SEEDED.md,confirm.log}
id=$1; wt=$2; extra=${3:-}
out=/verif/seeded/$id; mkdir -p $out
cd $wt || exit 1
git diff -- src > $out/patch.diff
cp tests/seeded_demo.rs $out/seeded_demo.rs
cp SEEDED.md $out/SEEDED.md 2>/dev/null
{
echo "== demo WITH change"; timeout 1200 cargo test --offline $extra --test seeded_demo 2>&1 | grep -E "^test |test result|panicked" | head -20
echo "== suite WITH change (demo moved aside)"; mv tests/seeded_demo.rs /tmp/seeded_demo_$id.rs
timeout 1800 cargo test --workspace --no-fail-fast --offline -- --test-threads 8 2>&1 | grep -E "^test result|FAILED|failed" | head -20
mv /tmp/seeded_demo_$id.rs tests/seeded_demo.rs
echo "== demo WITHOUT change"; git diff -- src > /tmp/confirm_$id.patch; git checkout -- src; timeout 1200 cargo test --offline $extra --test seeded_demo 2>&1 | grep -E "^test |test result|panicked" | head -20; git apply /tmp/confirm_$id.patch
echo "== diffstat"; git diff --stat -- src
} > $out/confirm.log 2>&1
echo done $id
