#!/usr/bin/env python3
"""Prints the prompt given to a fresh sub-agent that is asked to break ONE property (seeded-defect generation).
The agent gets only the property text and its own scratch worktree -- nothing from /verif."""
import json, sys
pid = sys.argv[1]; wt = sys.argv[2]; variant = sys.argv[3] if len(sys.argv) > 3 else ""
for l in open('/verif/properties.jsonl'):
    p = json.loads(l)
    if p['id'] == pid: break
print(f"""You are helping to evaluate a verification tool by producing a realistic, subtle defect ("seeded bug") in a Rust library.

The library is zertyz/reactive-mutiny (async reactive event library: Uni/Multi stream executors over custom lock-free queues, pool allocators, OgreArc refcounting, an mmap log channel). You have your OWN scratch git worktree of it at {wt} (a Cargo.lock is already there; the machine is OFFLINE, always pass --offline to cargo). Work ONLY inside {wt}. Never touch /repo or /verif and do not read anything under /verif.

The property you must break:

  Title: {p['title']}
  Statement: {p['statement']}
  It must hold for: {p['quantifier']['text']}

Your task: make a small change to the library's source under {wt}/src (not to its tests) such that
  1. the crate still compiles, and the existing test suite still passes exactly as before:
       cd {wt} && cargo test --workspace --no-fail-fast --offline -- --test-threads 8
     (on the unchanged tree 150 tests pass and exactly two fail: `ogre_std::ogre_queues::full_sync::non_blocking_queue::tests::peek_test` and the doctest `src/lib.rs - (line 33)`; these two always fail and are to be ignored. `multi::tests::undegradable_latencies` is timing sensitive: if it fails, re-run it alone.)
  2. the property above is violated by the changed code, but ONLY under something specific: a particular interleaving of threads, a particular multi-step sequence of operations, an unusual input or counter value (e.g. sequence counters near 2^32), a particular state (buffer exactly full / exactly empty / particular number of streams), or two cooperating sites that each look fine alone. Ordinary use (what the existing tests do) must NOT expose it. Think of the kind of mistake a maintainer could make in a refactoring or "optimisation" and that code review would miss.
  3. you provide a DEMONSTRATION: a self-contained Rust test file placed at {wt}/tests/seeded_demo.rs (an integration test using only the crate's public API; it may use std threads, loops with many iterations, or carefully sequenced calls) that FAILS (panics / assertion fails / hangs detected by a timeout inside the test) with your change and PASSES on the unchanged code. Run it with:  cd {wt} && cargo test --offline --test seeded_demo
     Verify both directions yourself (save your change with `git diff -- src > /tmp/<your-worktree-name>.patch`, revert with `git checkout -- src`, re-apply with `git apply`; do NOT use `git stash`: the stash is shared with sibling worktrees used by others). If the defect needs a rare interleaving, the demo may retry many times, but it should fail reliably (say 9 of 10 runs) within about a minute.
{variant}
Constraints: keep the change small (a few lines, one or two sites). Do not add new public API. Do not change tests, Cargo.toml or anything outside src/ except adding tests/seeded_demo.rs. There is a cargo feature `verif` in the crate (hooks for verification: `#[cfg(feature = "verif")]` lines, src/verif.rs): leave those lines alone and do not use them; your change must affect the normal (feature-off) build and must also compile with `--features verif`.

When done, leave the src change applied in the worktree (uncommitted) together with tests/seeded_demo.rs, and write {wt}/SEEDED.md describing: which file/function you changed and how, why the existing tests do not notice, exactly what is needed for the violation to manifest (the interleaving / sequence / input), and the commands you ran with their outcome (suite with change, demo with change, demo without change). In your final answer, summarise the same in a few lines.""")
