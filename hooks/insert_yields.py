#!/usr/bin/env python3
"""One-off helper used to author the `verif` hook commit in /repo (kept for the record; not run by checks).
Inserts `#[cfg(feature = "verif")] crate::verif::yield_point();` lines BEFORE lines containing given anchors."""
import sys,re
Y='#[cfg(feature = "verif")] crate::verif::yield_point();'
def ins(path, anchors):
    lines=open(path).read().split('\n')
    out=[]; used={a:0 for a in anchors}
    for i,l in enumerate(lines):
        for a in anchors:
            if a in l and Y not in (out[-1] if out else ''):
                ind=re.match(r'\s*',l).group(0)
                out.append(ind+Y); used[a]+=1
                break
        out.append(l)
    for a,n in used.items():
        if n==0: print('UNUSED anchor',path,a)
    open(path,'w').write('\n'.join(out))
    print(path, sum(used.values()))
R='/repo/src/'
ins(R+'ogre_std/ogre_queues/full_sync/full_sync_move.rs', [
 'ogre_sync::lock(&self.concurrency_guard);',
 '*tail = tail.overflowing_add(1).0;',
 '*tail = tail.overflowing_sub(1).0;',
 '*head = head.overflowing_add(1).0;',
 'let item = unsafe { Some(ptr::read(slot_ref)) };',
 'unsafe { ptr::write(slot, item); }',
])
ins(R+'streams_manager.rs', [
 'self.created_streams_count.fetch_add(1, Relaxed);',
 'self.used_streams_count.fetch_add(1, Relaxed);',
 'let stream_id = match self.vacant_streams.consume_movable() {',
 'keep_streams_running[stream_id as usize] = true;',
 'self.sync_vacant_and_used_streams();',
 'match unsafe {wakers.get_unchecked(stream_id as usize)} {',
 'ogre_sync::lock(&self.wakers_lock);',
 'keep_streams_running[stream_id as usize] = false;',
 'self.cancel_stream(*stream_id);',
 'match unsafe { wakers.get_unchecked_mut(stream_id as usize) } {',
 'waker.wake_by_ref();',
 'self.finished_streams_count.fetch_add(1, Relaxed);',
 'self.used_streams_count.fetch_sub(1, Relaxed);',
 'self.vacant_streams.publish_movable(stream_id);',
 'ogre_sync::lock(&self.streams_lock);',
 'unsafe { *used_streams.get_unchecked_mut(last_used_stream_id as usize)',
 'unsafe { *used_streams.get_unchecked_mut(i) = u32::MAX };',
 'ogre_sync::unlock(&self.streams_lock);',
])
ins(R+'mutiny_stream.rs', [
 'let event = self.events_source.consume(self.stream_id);',
 'if self.events_source.keep_stream_running(self.stream_id) {',
 'self.events_source.register_stream_waker(self.stream_id, cx.waker());',
 'Poll::Pending',
])
ins(R+'ogre_std/ogre_alloc/ogre_arc.rs', [
 'inner.references_count.fetch_add(count, Relaxed);',
 'inner.references_count.fetch_add(1, Relaxed);',
 'let references = inner.references_count.fetch_sub(1, Release);',
 'inner.allocator.dealloc_id(inner.data_id);',
 'let boxed = unsafe { Box::from_raw(inner) };',
])
ins(R+'ogre_std/ogre_alloc/ogre_array_pool_allocator.rs', [
 'if let Some(slot_id) = self.free_list.consume_movable() {',
 'self.free_list.publish_movable(slot_id);',
 'ptr::drop_in_place(slot);',
])
ins(R+'incremental_averages.rs', [
 'let mut current_joined = self.joined.load(load_ordering);',
 'match self.joined.compare_exchange(current_joined, new_joined, store_ordering, load_ordering) {',
 'AtomicIncrementalAverage64::split_joined(unsafe {&self.joined}.load(Relaxed))',
])
ins(R+'ogre_std/ogre_stacks/non_blocking_atomic_stack.rs', [
 'let in_use = self.flag.swap(true, Ordering::Acquire);',
 'if self.head >= BUFFER_SIZE as u32 {',
 'mutable_self.buffer[self.head as usize] = element;',
 'mutable_self.head += 1;',
 'if self.head == 0 {',
 'mutable_self.head -= 1;',
 'let element = self.buffer[self.head as usize];',
 'self.flag.store(false, Ordering::Release);',
 'self.flag.store(false, Ordering::Relaxed);',
])
